#!/bin/bash
# usage: unit_times.sh <tier> <timeout-s> <id>...   — runs every unit of each check on its own in a scratch copy
# of /verif (so the committed evidence is untouched) and prints its verdict and wall time
tier=$1; to=$2; shift 2
export GOFLAGS=-mod=mod GOPROXY=off GOSUMDB=off GOTOOLCHAIN=local
scratch=/tmp/verif_unit_times
rm -rf $scratch; mkdir -p $scratch
rsync -a --exclude replay --exclude .git /verif/ $scratch/
cd $scratch
for id in "$@"; do
  for u in $(python3 -c "
import json,sys
d=json.load(open('checks/$id.json'))
for u in d['units']:
    t=u.get('tiers')
    if t and '$tier' not in t: continue
    print(u['name'])"); do
    s=$(date +%s)
    timeout $to bin/gosym check -verif $scratch -id $id -tier $tier -unit $u > out.txt 2>&1; code=$?
    echo "$id $u exit=$code $(( $(date +%s) - s ))s $(grep -aE '^(PASS|FAIL|INCONCLUSIVE property=[A-Z0-9]+ tier)' out.txt | tail -1 | cut -c1-150)"
  done
done
rm -rf $scratch
