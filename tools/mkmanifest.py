#!/usr/bin/env python3
"""Regenerates /verif/MANIFEST.json from tools/manifest_src.json (one entry per claimed property)."""
import json, os
here = os.path.dirname(os.path.abspath(__file__))
root = os.path.dirname(here)
src = json.load(open(os.path.join(here, "manifest_src.json")))
checks = []
for c in src["checks"]:
    pid = c["id"]
    if not os.path.exists(os.path.join(root, "checks", pid + ".json")):
        continue
    checks.append({
        "property_id": pid,
        "quick_cmd": "./check %s --tier quick" % pid,
        "thorough_cmd": "./check %s --tier thorough" % pid,
        "evidence_file": "/verif/evidence/%s.json" % pid,
        "replay_cmd_template": "sh {path}/replay.sh",
        "engine": "gosym",
        "level_claimed": {"category": c["category"], "text": c["text"], "design_ref": c["design_ref"]},
        "level_note": c["note"],
        "technique": c["technique"],
    })
claimed = {c["property_id"] for c in checks}
na = [n for n in src["not_applicable"]]
for c in src["checks"]:
    if c["id"] not in claimed:
        na.append({"property_id": c["id"], "reason": "check not built yet in this revision (planned: DESIGN.md %s)" % c["design_ref"]})
m = {
    "version": 1,
    "setup_cmd": "cd /verif/engine && GOFLAGS=-mod=mod GOPROXY=off GOSUMDB=off GOTOOLCHAIN=local go build -o ../bin/gosym ./cmd/gosym",
    "hooks": src["hooks"],
    "engines": [{"name": "gosym", "path": "/verif/engine", "serves_properties": sorted(claimed),
                 "kind_free_text": "symbolic interpreter over go/ssa of the repository working tree (rebuilt every run) + SMT (z3 -in, QF_BV), path exploration by re-execution; harnesses injected by go/packages overlay; counterexamples replayed natively with go test -overlay"}],
    "checks": checks,
    "notes": src["notes"],
    "not_applicable": sorted(na, key=lambda x: x["property_id"]),
}
json.dump(m, open(os.path.join(root, "MANIFEST.json"), "w"), indent=1)
print("claimed:", sorted(claimed), "not applicable:", [n["property_id"] for n in m["not_applicable"]])
