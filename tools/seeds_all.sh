#!/bin/sh
# runs every seeded change against its property's quick check (scratch worktrees; evidence untouched)
cd "$(dirname "$0")/.." || exit 2
for d in ${*:-$(ls seeded)}; do
  pid=${d%%-*}
  [ "$d" = "C01-D" ] && pid=C07   # a codec change: C07's subject
  s=$(date +%s)
  r=$(timeout 3600 tools/seedrun.sh $d $pid 2>&1 | tail -1)
  echo "$r $(( $(date +%s) - s ))s units: $(grep -a '^VIOLATION' /tmp/seedrun_$d.out | sed 's#.*replay=/verif/replay/##' | cut -c1-60 | head -2 | tr '\n' ' ')$(grep -a '^INCONCLUSIVE' /tmp/seedrun_$d.out | head -1 | cut -c1-160)"
done
