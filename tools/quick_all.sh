#!/bin/sh
# runs every claimed property's quick check in sequence on /repo's working tree (refreshes evidence/)
cd "$(dirname "$0")/.." || exit 2
for id in ${*:-C01 C02 C03 C04 C05 C06 C07 C09 C10 C11 C12 C13 C14 C15 C16 C17 C18 C19 C20}; do
  s=$(date +%s)
  timeout 3600 ./check $id --tier quick > quick_$id.out 2>&1; code=$?
  echo "$id exit=$code $(( $(date +%s) - s ))s: $(grep -aE '^(PASS|FAIL|INCONCLUSIVE property=[A-Z0-9]+ tier)' quick_$id.out | tail -1 | cut -c1-170)"
  grep -aE '^(VIOLATION|INCONCLUSIVE)' quick_$id.out | head -5 | cut -c1-250
done
