#!/bin/bash
# usage: seedrun.sh <seeded-name> [property] [tier] [unit]
# Runs the property's check against a tree with the seeded change applied. The change is applied in
# a scratch worktree of /repo's HEAD (gosym's -repo flag points the check at it), so /repo itself and
# anything running against it are not disturbed; the committed evidence is left alone.
name=$1; pid=${2:-${name%%-*}}; tier=${3:-quick}; unit=${4:+-unit $4}
wt=/tmp/seedrepo_$name
cd /verif
git -C /repo worktree remove --force $wt 2>/dev/null
git -C /repo worktree add -q --detach $wt HEAD || exit 3
git -C $wt apply /verif/seeded/$name/patch.diff || { echo "patch does not apply"; git -C /repo worktree remove --force $wt; exit 3; }
export GOFLAGS=-mod=mod GOPROXY=off GOSUMDB=off GOTOOLCHAIN=local
cp evidence/$pid.json /tmp/evidence_$pid.$$.bak 2>/dev/null
bin/gosym check -verif /verif -repo $wt -id $pid -tier $tier $unit > /tmp/seedrun_$name.out 2>&1; code=$?
cp /tmp/evidence_$pid.$$.bak evidence/$pid.json 2>/dev/null; rm -f /tmp/evidence_$pid.$$.bak
git -C /repo worktree remove --force $wt
grep -E "^(VIOLATION|INCONCLUSIVE|PASS|FAIL|KNOWN)" /tmp/seedrun_$name.out | cut -c1-300 | head -8
echo "seed $name check $pid exit=$code"
