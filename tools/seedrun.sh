#!/bin/bash
# usage: seedrun.sh <seeded-name> [property] [tier]  -- applies the seeded patch to /repo, runs the check, undoes it
name=$1; pid=${2:-${name%%-*}}; tier=${3:-quick}
cd /verif
git -C /repo apply /verif/seeded/$name/patch.diff || { echo "patch does not apply"; exit 3; }
cp evidence/$pid.json /tmp/evidence_$pid.bak 2>/dev/null
./check $pid --tier $tier > /tmp/seedrun_$name.out 2>&1; code=$?
git -C /repo checkout -- .
cp /tmp/evidence_$pid.bak evidence/$pid.json 2>/dev/null  # evidence must describe the unchanged tree
grep -E "^(VIOLATION|INCONCLUSIVE|PASS|FAIL|KNOWN)" /tmp/seedrun_$name.out | cut -c1-300 | head -8
echo "seed $name check $pid exit=$code"
