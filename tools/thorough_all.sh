#!/bin/sh
# runs every check's thorough tier in sequence (used with `vp run` to validate the registered thorough bounds)
cd "$(dirname "$0")/.." || exit 2
export GOFLAGS=-mod=mod GOPROXY=off GOSUMDB=off GOTOOLCHAIN=local
(cd engine && go build -o ../bin/gosym ./cmd/gosym) || exit 2
for id in ${*:-C04 C05 C09 C20 C06 C12 C16 C07 C19 C13 C10 C14 C18 C15 C17 C02 C01 C11 C03}; do
  s=$(date +%s)
  timeout 900 ./check $id --tier thorough > thorough_$id.out 2>&1; code=$?
  echo "$id exit=$code $(( $(date +%s) - s ))s: $(grep -E '^(PASS|FAIL|INCONCLUSIVE property=[A-Z0-9]+ tier)' thorough_$id.out | tail -1 | cut -c1-180)"
  grep -E '^(VIOLATION|INCONCLUSIVE)' thorough_$id.out | head -5 | cut -c1-250
done
