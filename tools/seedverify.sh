#!/bin/bash
# usage: seedverify.sh <seed-src-dir> <name>   e.g. /tmp/seed/C04/SEED/A C04-A
# Confirms a seeded change independently in a scratch worktree: patch applies, suite passes with it,
# demo fails with it and passes without; then stores it under /verif/seeded/<name>/.
set -u
export GOFLAGS=-mod=mod GOPROXY=off GOSUMDB=off GOTOOLCHAIN=local
src=$1; name=$2; wt=/tmp/sv_$name
git -C /repo worktree remove --force $wt 2>/dev/null
git -C /repo worktree add -q --detach $wt HEAD || exit 1
copy_to=$(python3 -c "import json;print(json.load(open('$src/meta.json'))['demo']['copy_to'])")
run=$(python3 -c "import json;print(json.load(open('$src/meta.json'))['demo']['run'])")
files=$(python3 -c "import json;print(' '.join(json.load(open('$src/meta.json'))['demo']['files']))")
log=/tmp/sv_$name.log; : > $log
cd $wt
ok=1
git apply --check $src/patch.diff >>$log 2>&1 || { echo "PATCH DOES NOT APPLY"; ok=0; }
if [ $ok = 1 ]; then
  git apply $src/patch.diff
  go build ./... >>$log 2>&1 || { echo "BUILD FAILS"; ok=0; }
  if go test -vet=off -count=1 ./... >>$log 2>&1; then echo "suite passes with change"; else echo "SUITE FAILS WITH CHANGE"; ok=0; fi
  for f in $files; do cp $src/$(basename $f) $wt/$copy_to/; done
  fails=0
  for i in 1 2 3; do if (cd $wt && timeout 600 bash -c "$run") >>$log 2>&1; then :; else fails=$((fails+1)); fi; done
  echo "demo with change: failed $fails/3"
  [ $fails = 3 ] || ok=0
  git apply -R $src/patch.diff
  passes=0
  for i in 1 2 3; do if (cd $wt && timeout 600 bash -c "$run") >>$log 2>&1; then passes=$((passes+1)); fi; done
  echo "demo without change: passed $passes/3"
  [ $passes = 3 ] || ok=0
fi
cd /; git -C /repo worktree remove --force $wt
if [ $ok = 1 ]; then
  mkdir -p /verif/seeded/$name
  cp $src/patch.diff /verif/seeded/$name/
  for f in $files; do cp $src/$(basename $f) /verif/seeded/$name/; done
  python3 - "$src/meta.json" "/verif/seeded/$name/meta.json" <<'PY'
import json,sys
m=json.load(open(sys.argv[1]))
m["confirmed_by_me"]="tools/seedverify.sh: scratch worktree of /repo HEAD; git apply; go build ./...; go test -vet=off -count=1 ./... passes with the change; demo failed 3/3 with the change and passed 3/3 without"
json.dump(m,open(sys.argv[2],'w'),indent=1)
PY
  echo "KEPT /verif/seeded/$name"
else
  echo "REJECTED $name (see $log)"
fi
