package main

import (
	"bufio"
	"encoding/json"
	"fmt"
	"os"
	"path/filepath"
	"regexp"
	"strings"
	"time"

	"gosym/interp"

	"golang.org/x/tools/go/packages"
	"golang.org/x/tools/go/ssa"
	"golang.org/x/tools/go/ssa/ssautil"
)

const modulePrefix = "github.com/pgavlin/dawn"

// stdInit: dependency packages whose initialisers were found to run cleanly under the engine; every
// unit runs them (plus every package of the dawn module). Reads of variables set by any other
// package's initialiser abort the path as unsupported (see guardGlobal).
var stdInit = []string{"unicode/utf8", "strconv", "errors", "internal/oserror", "io", "io/fs", "bytes", "math/big", "go.starlark.net/starlark", "go.starlark.net/resolve"}

// Intrinsics are declared without bodies in the overlay; the engine interprets them.
const intrinsicDecls = `
func vNondetU8(tag string) uint8
func vNondetU16(tag string) uint16
func vNondetU32(tag string) uint32
func vNondetU64(tag string) uint64
func vNondetI64(tag string) int64
func vNondetBool(tag string) bool
func vAssume(ok bool)
func vAssert(ok bool, tag string)
func vReach(tag string)
func vParam(name string) int
func vChoose(tag string, n int) int
func vRegion(name string, cond bool)
func vNote(s string)
func vB2I(b bool) uint8
func vHash(data []byte) []byte
func vCrash()
func vCatchCrash(f func()) bool
func vIsSym(x any) bool
func vHang(what string)
func vNative() bool
func vHeld() int
func vMapPad(m any, n int)
func vSyncMapPut(m *sync.Map, k, v any) bool
`

// Edit is a textual mutation of a repository file, applied in the overlay only.
type Edit struct {
	File string `json:"file"` // relative to the repository root
	Old  string `json:"old"`
	New  string `json:"new"`
}

// Job is one exploration.
type Job struct {
	Unit   string         `json:"unit"`
	Fn     string         `json:"fn"`
	Params map[string]int `json:"params"`
	Known  []string       `json:"known"`
}

// WorkerSpec is what a worker process reads from stdin.
type WorkerSpec struct {
	Repo       string   `json:"repo"`
	Pkg        string   `json:"pkg"`
	HarnessDir string   `json:"harness_dir"`
	Init       []string `json:"init"`
	Edits      []Edit   `json:"edits"`
	Jobs       []Job    `json:"jobs"`
	Solver     string   `json:"solver"` // z3 | z3-new | cvc5
	StepLimit  int64    `json:"step_limit"`
	Decisions  int      `json:"decisions"`
	CallDepth  int      `json:"call_depth"`
	TimeoutMS  int      `json:"timeout_ms"`
	SMTLog     string   `json:"smt_log"`
	Hang       bool     `json:"hang_is_violation"`
	Stream     bool     `json:"stream"` // further jobs follow on stdin, one JSON value each, until EOF
}

var pkgClause = regexp.MustCompile(`(?m)^package\s+(\w+)`)

// buildOverlay returns the overlay for a harness directory: harness files, the intrinsic
// declarations, and mutated copies of repository files.
func buildOverlay(repo, pkg, hdir string, edits []Edit) (map[string][]byte, error) {
	overlay := map[string][]byte{}
	files, _ := filepath.Glob(filepath.Join(hdir, "*.go"))
	if len(files) == 0 {
		return nil, fmt.Errorf("no harness files in %s", hdir)
	}
	pkgName := ""
	for _, f := range files {
		b, err := os.ReadFile(f)
		if err != nil {
			return nil, err
		}
		if strings.HasSuffix(f, "_native.go") {
			continue // native-only support code for replays
		}
		if m := pkgClause.FindSubmatch(b); m != nil && pkgName == "" {
			pkgName = string(m[1])
		}
		overlay[filepath.Join(repo, pkg, "zz_verif_"+filepath.Base(f))] = b
	}
	overlay[filepath.Join(repo, pkg, "zz_verif_rt.go")] = []byte("package " + pkgName + "\n\nimport \"sync\"\n" + intrinsicDecls)
	for _, e := range edits {
		path := filepath.Join(repo, e.File)
		b, ok := overlay[path]
		if !ok {
			var err error
			b, err = os.ReadFile(path)
			if err != nil {
				return nil, err
			}
		}
		if strings.Count(string(b), e.Old) != 1 {
			return nil, fmt.Errorf("mutant does not apply: %q occurs %d times in %s", e.Old, strings.Count(string(b), e.Old), e.File)
		}
		overlay[path] = []byte(strings.Replace(string(b), e.Old, e.New, 1))
	}
	return overlay, nil
}

func loadProgram(repo, pkg string, overlay map[string][]byte) (*ssa.Package, int, error) {
	cfg := &packages.Config{Mode: packages.LoadAllSyntax, Dir: repo,
		Env:     append(os.Environ(), "GOFLAGS=-mod=mod", "GOPROXY=off", "GOSUMDB=off", "GOTOOLCHAIN=local"),
		Overlay: overlay, BuildFlags: []string{"-tags=verif,math_big_pure_go,purego"}}
	pkgs, err := packages.Load(cfg, pkg)
	if err != nil {
		return nil, 0, err
	}
	var errs []string
	packages.Visit(pkgs, nil, func(p *packages.Package) {
		for _, e := range p.Errors {
			errs = append(errs, e.Error())
		}
	})
	if len(errs) > 0 {
		if len(errs) > 8 {
			errs = errs[:8]
		}
		return nil, 0, fmt.Errorf("harness does not compile against this tree: %s", strings.Join(errs, "; "))
	}
	prog, spkgs := ssautil.AllPackages(pkgs, ssa.InstantiateGenerics)
	prog.Build()
	return spkgs[0], len(prog.AllPackages()), nil
}

func solverCmd(name string, timeoutMS int) (string, []string) {
	switch name {
	case "z3-new":
		return "z3-new", []string{"-in"}
	case "cvc5":
		return "cvc5", []string{"--incremental", "--lang=smt2", fmt.Sprintf("--tlimit-per=%d", timeoutMS)}
	}
	return "/usr/bin/z3", []string{"-in"}
}

func emit(kind string, v any) {
	b, _ := json.Marshal(v)
	fmt.Printf("%s %s\n", kind, b)
}

func workerMain() {
	var spec WorkerSpec
	dec := json.NewDecoder(bufio.NewReader(os.Stdin))
	if err := dec.Decode(&spec); err != nil {
		emit("FATAL", err.Error())
		os.Exit(2)
	}
	t0 := time.Now()
	overlay, err := buildOverlay(spec.Repo, spec.Pkg, spec.HarnessDir, spec.Edits)
	if err != nil {
		emit("FATAL", err.Error())
		os.Exit(2)
	}
	pkg, npkgs, err := loadProgram(spec.Repo, spec.Pkg, overlay)
	if err != nil {
		emit("FATAL", err.Error())
		os.Exit(2)
	}
	emit("LOAD", map[string]any{"load_s": time.Since(t0).Seconds(), "packages": npkgs})
	if spec.TimeoutMS == 0 {
		spec.TimeoutMS = 60000
	}
	path, args := solverCmd(spec.Solver, spec.TimeoutMS)
	s, err := interp.NewSolver(path, args...)
	if err != nil {
		emit("FATAL", err.Error())
		os.Exit(2)
	}
	s.SetTimeout(spec.TimeoutMS)
	if spec.SMTLog != "" {
		f, _ := os.Create(spec.SMTLog)
		s.Log = f
	}
	m := interp.NewMachine(pkg)
	next := func() (Job, bool) {
		if len(spec.Jobs) > 0 {
			j := spec.Jobs[0]
			spec.Jobs = spec.Jobs[1:]
			return j, true
		}
		var j Job
		if spec.Stream && dec.Decode(&j) == nil {
			return j, true
		}
		return j, false
	}
	for {
		j, ok := next()
		if !ok {
			break
		}
		known := map[string]bool{}
		for _, k := range j.Known {
			known[k] = true
		}
		res := m.RunCase(j.Fn, s, interp.Options{
			AllowInit: append(append([]string{}, stdInit...), spec.Init...), Params: j.Params, KnownRegions: known,
			StepLimit: spec.StepLimit, MaxDecisions: spec.Decisions, MaxCallDepth: spec.CallDepth,
			SolverTimeMS: spec.TimeoutMS, ModulePrefix: modulePrefix, HangIsViolation: spec.Hang,
		})
		emit("RESULT", map[string]any{"unit": j.Unit, "result": res})
	}
	s.Close()
}
