package main

import (
	"bufio"
	"bytes"
	"encoding/json"
	"flag"
	"fmt"
	"os"
	"os/exec"
	"path/filepath"
	"runtime"
	"sort"
	"strconv"
	"strings"
	"sync"
	"time"

	"gosym/interp"
)

// Unit is one harness function explored at a set of parameter points.
type Unit struct {
	Name       string                      `json:"name"`
	Pkg        string                      `json:"pkg"`
	Harness    string                      `json:"harness"`
	Fn         string                      `json:"fn"`
	Init       []string                    `json:"init"`
	Params     map[string]map[string][]int `json:"params"` // tier ("quick","thorough","all") -> name -> values
	Shards     map[string]int              `json:"shards"` // tier -> number of workers each case is split over (by its first decisions)
	ShardDepth int                         `json:"shard_depth"`
	Expect     []string                    `json:"expect"` // vReach markers that must be hit by a feasible path
	MustFail   bool                        `json:"must_fail"`
	MustTags   []string                    `json:"must_tags"` // for must_fail units: tags one of which has to be violated
	OnlyTags   []string                    `json:"only_tags"` // assertions of this unit that belong to this property (prefixes); others are another check's business
	Replay     string                      `json:"replay"`    // native | symbolic
	Tiers      []string                    `json:"tiers"`
	Edits      []Edit                      `json:"edits"`
	StepLimit  int64                       `json:"step_limit"`
	Decisions  int                         `json:"decisions"`
	CallDepth  int                         `json:"call_depth"`
	TimeoutMS  int                         `json:"timeout_ms"`
	Par        int                         `json:"par"`
	Cross      bool                        `json:"cross"` // thorough tier: repeat with z3 5.1 and cvc5 and compare
	What       string                      `json:"what"`
	Hang       bool                        `json:"hang_is_violation"`
	Conform    bool                        `json:"conform"` // translator validation: concrete harness, observations (vNote) compared with a native run
}

// CheckSpec describes the check of one property.
type CheckSpec struct {
	Property    string   `json:"property"`
	Level       string   `json:"level"`
	Explanation string   `json:"explanation"`
	Assumptions []string `json:"assumptions"`
	TrustedBase []string `json:"trusted_base"`
	Bounds      string   `json:"bounds"`
	Units       []Unit   `json:"units"`
}

// Finding is an entry of the committed known-findings file.
type Finding struct {
	Property string `json:"property"`
	Fn       string `json:"fn"`     // harness function ("" = any of the property)
	Region   string `json:"region"` // vRegion name declared by the harness
	Status   string `json:"status"` // known | fixed
	What     string `json:"what"`
	Commit   string `json:"commit,omitempty"`
}

type unitOutcome struct {
	unit     *Unit
	solver   string
	results  []interp.CaseResult
	fatal    string
	loadS    float64
	packages int
	wallS    float64
	nworkers int
}

func expandParams(u *Unit, tier string) []map[string]int {
	merged := map[string][]int{}
	for _, t := range []string{"all", tier} {
		for k, v := range u.Params[t] {
			merged[k] = v
		}
	}
	var names []string
	for k := range merged {
		names = append(names, k)
	}
	sort.Strings(names)
	res := []map[string]int{{}}
	for _, n := range names {
		var next []map[string]int
		for _, base := range res {
			for _, v := range merged[n] {
				m := map[string]int{}
				for k, x := range base {
					m[k] = x
				}
				m[n] = v
				next = append(next, m)
			}
		}
		res = next
	}
	return res
}

func inTier(u *Unit, tier string) bool {
	if len(u.Tiers) == 0 {
		return true
	}
	for _, t := range u.Tiers {
		if t == tier {
			return true
		}
	}
	return false
}

var procSem chan struct{}

// runWorker starts one worker process and feeds it jobs from the shared queue until the queue is
// empty (dynamic scheduling: a worker that finishes early takes the next job).
func runWorker(self string, spec WorkerSpec, queue <-chan Job) (results []interp.CaseResult, loadS float64, npk int, fatal string) {
	procSem <- struct{}{}
	defer func() { <-procSem }()
	spec.Jobs = nil
	spec.Stream = true
	cmd := exec.Command(self, "worker")
	stdin, err := cmd.StdinPipe()
	if err != nil {
		return nil, 0, 0, err.Error()
	}
	var stderr bytes.Buffer
	cmd.Stderr = &stderr
	if os.Getenv("VERIF_PROGRESS") != "" {
		cmd.Stderr = os.Stderr
	}
	out, err := cmd.StdoutPipe()
	if err != nil {
		return nil, 0, 0, err.Error()
	}
	if err := cmd.Start(); err != nil {
		return nil, 0, 0, err.Error()
	}
	enc := json.NewEncoder(stdin)
	enc.Encode(spec)
	sc := bufio.NewScanner(out)
	sc.Buffer(make([]byte, 1<<20), 1<<28)
	// readUntil consumes worker output up to and including the next line of the given kind
	readUntil := func(kind string) bool {
		for sc.Scan() {
			line := sc.Text()
			switch {
			case strings.HasPrefix(line, "RESULT "):
				var r struct {
					Unit   string            `json:"unit"`
					Result interp.CaseResult `json:"result"`
				}
				if err := json.Unmarshal([]byte(line[7:]), &r); err == nil {
					results = append(results, r.Result)
				}
			case strings.HasPrefix(line, "LOAD "):
				var l struct {
					LoadS    float64 `json:"load_s"`
					Packages int     `json:"packages"`
				}
				json.Unmarshal([]byte(line[5:]), &l)
				loadS, npk = l.LoadS, l.Packages
			case strings.HasPrefix(line, "FATAL "):
				fatal = line[6:]
				return false
			}
			if strings.HasPrefix(line, kind+" ") {
				return true
			}
		}
		return false
	}
	sent := 0
	if readUntil("LOAD") {
		for j := range queue {
			sent++
			if enc.Encode(j) != nil || !readUntil("RESULT") {
				break
			}
		}
	}
	stdin.Close()
	for sc.Scan() {
	}
	werr := cmd.Wait()
	if stderr.Len() > 0 && os.Getenv("VERIF_DEBUG") != "" {
		os.Stderr.Write(stderr.Bytes())
	}
	if fatal == "" && len(results) < sent {
		tail := stderr.String()
		if len(tail) > 1500 {
			tail = tail[len(tail)-1500:]
		}
		fatal = fmt.Sprintf("worker ended after %d of %d jobs (%v): %s", len(results), sent, werr, tail)
	}
	return
}

func runUnit(self, verif, repo string, spec *CheckSpec, u *Unit, tier, solver string, findings []Finding) *unitOutcome {
	t0 := time.Now()
	var known []string
	for _, f := range findings {
		if f.Property == spec.Property && f.Status == "known" && (f.Fn == "" || f.Fn == u.Fn) {
			known = append(known, f.Region)
		}
	}
	cases := expandParams(u, tier)
	if n := u.Shards[tier]; n > 1 {
		depth := u.ShardDepth
		if depth <= 0 {
			depth = 8
		}
		var split []map[string]int
		for _, c := range cases {
			for k := 0; k < n; k++ {
				m := map[string]int{"__shard": k, "__shards": n, "__shard_depth": depth}
				for a, b := range c {
					m[a] = b
				}
				split = append(split, m)
			}
		}
		cases = split
	}
	par := u.Par
	if par <= 0 {
		par = 16
	}
	if par > len(cases) {
		par = len(cases)
	}
	queue := make(chan Job, len(cases))
	for _, c := range cases {
		queue <- Job{Unit: u.Name, Fn: u.Fn, Params: c, Known: known}
	}
	close(queue)
	out := &unitOutcome{unit: u, solver: solver, nworkers: par}
	var mu sync.Mutex
	var wg sync.WaitGroup
	for w := 0; w < par; w++ {
		wg.Add(1)
		go func() {
			defer wg.Done()
			ws := WorkerSpec{Repo: repo, Pkg: u.Pkg, HarnessDir: filepath.Join(verif, "harness", u.Harness), Init: u.Init,
				Edits: u.Edits, Solver: solver, StepLimit: u.StepLimit, Decisions: u.Decisions, CallDepth: u.CallDepth, TimeoutMS: u.TimeoutMS, Hang: u.Hang}
			rs, ls, npk, fatal := runWorker(self, ws, queue)
			mu.Lock()
			out.results = append(out.results, rs...)
			if ls > out.loadS {
				out.loadS = ls
			}
			out.packages = npk
			if fatal != "" {
				out.fatal = fatal
			}
			mu.Unlock()
		}()
	}
	wg.Wait()
	out.wallS = time.Since(t0).Seconds()
	sort.Slice(out.results, func(i, j int) bool { return paramKey(out.results[i].Params) < paramKey(out.results[j].Params) })
	return out
}

func paramKey(p map[string]int) string {
	var ks []string
	for k := range p {
		ks = append(ks, k)
	}
	sort.Strings(ks)
	var b strings.Builder
	for _, k := range ks {
		fmt.Fprintf(&b, "%s=%06d,", k, p[k])
	}
	return b.String()
}

func paramStr(p map[string]int) string {
	var ks []string
	for k := range p {
		ks = append(ks, k)
	}
	sort.Strings(ks)
	var parts []string
	for _, k := range ks {
		parts = append(parts, k+"="+strconv.Itoa(p[k]))
	}
	return strings.Join(parts, ",")
}

func modelStr(m map[string]uint64) string {
	var ks []string
	for k := range m {
		if strings.Contains(k, "_hash") {
			continue // internal: outputs of the hash model
		}
		ks = append(ks, k)
	}
	sort.Slice(ks, func(i, j int) bool {
		a, _ := strconv.Atoi(strings.SplitN(ks[i][2:], "_", 2)[0])
		b, _ := strconv.Atoi(strings.SplitN(ks[j][2:], "_", 2)[0])
		return a < b
	})
	var parts []string
	for _, k := range ks {
		parts = append(parts, fmt.Sprintf("%s=%d", k, m[k]))
	}
	return strings.Join(parts, " ")
}

func checkMain(args []string) int {
	fs := flag.NewFlagSet("check", flag.ExitOnError)
	id := fs.String("id", "", "property id")
	tier := fs.String("tier", "", "quick|thorough")
	repo := fs.String("repo", "/repo", "repository working tree")
	verif := fs.String("verif", "/verif", "verification directory")
	only := fs.String("unit", "", "run only this unit (debugging; evidence is not written)")
	jobs := fs.Int("j", 0, "worker processes (default: CPUs)")
	fs.Parse(args)
	if *tier == "" {
		*tier = os.Getenv("VERIF_TIER")
	}
	if *tier != "thorough" {
		*tier = "quick"
	}
	seed, _ := strconv.Atoi(os.Getenv("VERIF_SEED"))
	if *jobs <= 0 {
		*jobs = runtime.NumCPU()
	}
	procSem = make(chan struct{}, *jobs)
	self, _ := os.Executable()
	t0 := time.Now()

	var spec CheckSpec
	b, err := os.ReadFile(filepath.Join(*verif, "checks", *id+".json"))
	if err != nil {
		fmt.Println("INCONCLUSIVE property=" + *id + " no check spec: " + err.Error())
		return 2
	}
	if err := json.Unmarshal(b, &spec); err != nil {
		fmt.Println("INCONCLUSIVE property=" + *id + " bad check spec: " + err.Error())
		return 2
	}
	var kf struct {
		Findings []Finding `json:"findings"`
	}
	if b, err := os.ReadFile(filepath.Join(*verif, "known_findings.json")); err == nil {
		if err := json.Unmarshal(b, &kf); err != nil {
			fmt.Println("INCONCLUSIVE property=" + *id + " bad known_findings.json: " + err.Error())
			return 2
		}
	}

	// run all units concurrently (the process semaphore bounds the load)
	var outcomes []*unitOutcome
	var mu sync.Mutex
	var wg sync.WaitGroup
	for ui := range spec.Units {
		u := &spec.Units[ui]
		if !inTier(u, *tier) || (*only != "" && u.Name != *only) {
			continue
		}
		solvers := []string{"z3"}
		if u.Cross && *tier == "thorough" {
			solvers = append(solvers, "z3-new", "cvc5")
		}
		for _, sv := range solvers {
			wg.Add(1)
			go func(u *Unit, sv string) {
				defer wg.Done()
				o := runUnit(self, *verif, *repo, &spec, u, *tier, sv, kf.Findings)
				mu.Lock()
				outcomes = append(outcomes, o)
				mu.Unlock()
			}(u, sv)
		}
	}
	wg.Wait()
	sort.SliceStable(outcomes, func(i, j int) bool {
		if outcomes[i].unit.Name != outcomes[j].unit.Name {
			return outcomes[i].unit.Name < outcomes[j].unit.Name
		}
		return outcomes[i].solver < outcomes[j].solver
	})

	rep := newReport(&spec, *tier, seed, *verif, *repo, kf.Findings)
	for _, o := range outcomes {
		rep.addUnit(o)
	}
	rep.crossCheck(outcomes)
	os.RemoveAll(filepath.Join(*verif, "replay", spec.Property))
	rep.conformAll(outcomes)
	rep.replayAll()
	code := rep.finish(time.Since(t0).Seconds(), *only == "")
	return code
}

// runMain: ad-hoc exploration for development.
func runMain(args []string) int {
	fs := flag.NewFlagSet("run", flag.ExitOnError)
	pkg := fs.String("pkg", "./label", "package relative to the repository")
	hdir := fs.String("harness", "label", "harness dir under /verif/harness")
	fn := fs.String("fn", "", "harness function")
	initL := fs.String("init", "", "comma-separated packages whose init runs")
	repo := fs.String("repo", "/repo", "")
	verif := fs.String("verif", "/verif", "")
	solver := fs.String("solver", "z3", "")
	known := fs.String("known", "", "comma-separated known regions")
	funcs := fs.Bool("funcs", false, "print interpreted functions")
	smtlog := fs.String("smtlog", "", "")
	steps := fs.Int64("steps", 0, "")
	decisions := fs.Int("decisions", 0, "")
	var params multiFlag
	fs.Var(&params, "p", "name=value parameter (repeatable)")
	var edits multiFlag
	fs.Var(&edits, "edit", "file::old::new mutation applied in the overlay (repeatable)")
	fs.Parse(args)
	procSem = make(chan struct{}, 1)
	self, _ := os.Executable()
	pm := map[string]int{}
	for _, p := range params {
		kv := strings.SplitN(p, "=", 2)
		v, _ := strconv.Atoi(kv[1])
		pm[kv[0]] = v
	}
	ws := WorkerSpec{Repo: *repo, Pkg: *pkg, HarnessDir: filepath.Join(*verif, "harness", *hdir), Solver: *solver,
		Jobs: []Job{{Unit: "adhoc", Fn: *fn, Params: pm}}, SMTLog: *smtlog, StepLimit: *steps, Decisions: *decisions}
	if *initL != "" {
		ws.Init = strings.Split(*initL, ",")
	}
	if *known != "" {
		ws.Jobs[0].Known = strings.Split(*known, ",")
	}
	for _, e := range edits {
		p := strings.SplitN(e, "::", 3)
		ws.Edits = append(ws.Edits, Edit{File: p[0], Old: p[1], New: p[2]})
	}
	os.Setenv("VERIF_DEBUG", "1")
	adhocQ := make(chan Job, len(ws.Jobs))
	for _, j := range ws.Jobs {
		adhocQ <- j
	}
	close(adhocQ)
	rs, ls, npk, fatal := runWorker(self, ws, adhocQ)
	fmt.Printf("load %.1fs, %d packages\n", ls, npk)
	if fatal != "" {
		fmt.Println("FATAL:", fatal)
		return 2
	}
	for _, r := range rs {
		fmt.Printf("paths=%d aborted=%d infeasible=%d forks=%d maxDecisions=%d steps=%d asserts=%d assertQueries=%d pinned=%d\n",
			r.Paths, r.Aborted, r.Infeasible, r.Forks, r.MaxDecisions, r.Steps, r.Asserts, r.AssertQueries, r.Pinned)
		fmt.Printf("solver: queries=%d sat=%d unsat=%d unknown=%d errors=%d time=%.2fs wall=%.2fs\n", r.Queries, r.Sat, r.Unsat, r.Unknown, r.SolverErrors, r.SolverS, r.WallS)
		var ks []string
		for k := range r.Reached {
			ks = append(ks, k)
		}
		sort.Strings(ks)
		for _, k := range ks {
			fmt.Printf("reach %s: %d\n", k, r.Reached[k])
		}
		for k, n := range r.Inconclusive {
			fmt.Printf("INCONCLUSIVE %s: %d\n", k, n)
		}
		seen := map[string]int{}
		for _, v := range r.Violations {
			seen[v.Tag+"|"+v.Known]++
			if seen[v.Tag+"|"+v.Known] <= 3 {
				fmt.Printf("VIOLATION tag=%q known=%q model: %s\n", v.Tag, v.Known, modelStr(v.Model))
				if v.Stack != "" {
					fmt.Print(v.Stack)
				}
			}
		}
		for k, n := range seen {
			fmt.Printf("violations[%s]=%d\n", k, n)
		}
		for _, n := range r.Notes {
			fmt.Println("note:", n)
		}
		if *funcs {
			d, h, deps := interp.FuncsByOrigin(r.Funcs, modulePrefix)
			fmt.Println("dawn functions:", strings.Join(d, "\n  "))
			fmt.Println("harness functions:", len(h))
			fmt.Println("dependency functions:", strings.Join(deps, "\n  "))
			var ms []string
			for k, n := range r.Models {
				ms = append(ms, fmt.Sprintf("%s x%d", k, n))
			}
			sort.Strings(ms)
			fmt.Println("models hit:", strings.Join(ms, "\n  "))
		}
	}
	return 0
}

type multiFlag []string

func (m *multiFlag) String() string     { return strings.Join(*m, ",") }
func (m *multiFlag) Set(s string) error { *m = append(*m, s); return nil }
