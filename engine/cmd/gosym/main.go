// gosym: solver-based checking of pgavlin/dawn's real code.
//
//	gosym check -id C07 -tier quick      run a registered check, write evidence, print verdict
//	gosym worker                         (internal) load one package + overlay, run jobs from stdin
//	gosym run -pkg ./pickle -harness pickle -fn VHarnessX -p n=3   ad-hoc single exploration
package main

import (
	"fmt"
	"os"
)

func main() {
	if len(os.Args) < 2 {
		fmt.Fprintln(os.Stderr, "usage: gosym check|worker|run|selftest ...")
		os.Exit(2)
	}
	switch os.Args[1] {
	case "worker":
		workerMain()
	case "check":
		os.Exit(checkMain(os.Args[2:]))
	case "run":
		os.Exit(runMain(os.Args[2:]))
	default:
		fmt.Fprintln(os.Stderr, "unknown subcommand", os.Args[1])
		os.Exit(2)
	}
}
