package main

import (
	"context"
	"encoding/json"
	"fmt"
	"os"
	"os/exec"
	"path/filepath"
	"regexp"
	"strings"
	"syscall"
	"time"
)

// Native bodies of the intrinsics: the harness is compiled into the real package as a _test file
// and reads the solver's assignment, so a counterexample is re-run on the natively compiled code.
const replayRuntime = `
import (
	"crypto/sha256"
	"encoding/json"
	"fmt"
	"os"
	"sync"
	"testing"
)

var (
	vrtModel   = map[string]uint64{}
	vrtParams  = map[string]int{}
	vrtSeq     int
	vrtFailed  []string
	vrtReached = map[string]int{}
	// vrtCleanups: run when the replay ends (native harness layers register temporary directories here)
	vrtCleanups []func()
)

func vrtNext(tag string) uint64 {
	name := fmt.Sprintf("in%d_%s", vrtSeq, vrtSanitize(tag))
	vrtSeq++
	return vrtModel[name] // absent = unconstrained by the model: any value will do
}

func vrtSanitize(s string) string {
	b := []byte(s)
	for i, c := range b {
		if !(c >= 'a' && c <= 'z' || c >= 'A' && c <= 'Z' || c >= '0' && c <= '9' || c == '_') {
			b[i] = '_'
		}
	}
	return string(b)
}

func vNondetU8(tag string) uint8   { return uint8(vrtNext(tag)) }
func vNondetU16(tag string) uint16 { return uint16(vrtNext(tag)) }
func vNondetU32(tag string) uint32 { return uint32(vrtNext(tag)) }
func vNondetU64(tag string) uint64 { return vrtNext(tag) }
func vNondetI64(tag string) int64  { return int64(vrtNext(tag)) }
func vNondetBool(tag string) bool  { return vrtNext(tag) != 0 }
func vChoose(tag string, n int) int {
	if n <= 1 {
		return 0
	}
	return int(vrtNext(tag))
}
func vParam(name string) int { return vrtParams[name] }

type vrtAssumeFailed struct{}
type vrtCrashed struct{}

func vAssume(ok bool) {
	if !ok {
		panic(vrtAssumeFailed{})
	}
}
func vAssert(ok bool, tag string) {
	if !ok {
		vrtFailed = append(vrtFailed, tag)
	}
}
func vReach(tag string)            { vrtReached[tag]++ }
func vRegion(name string, c bool)  {}
func vNote(s string)               { fmt.Printf("VERIF-NOTE: %q\n", s) }
func vIsSym(x any) bool            { return false }
func vNative() bool                { return true }
func vHeld() int                   { return 0 }
func vMapPad(m any, n int)         {}
func vSyncMapPut(m *sync.Map, k, v any) bool { _, loaded := m.LoadOrStore(k, v); return !loaded }
func vHang(what string)            { panic("VERIF: hang: " + what) }
func vCrash()                      { panic(vrtCrashed{}) }
func vCatchCrash(f func()) (crashed bool) {
	defer func() {
		if r := recover(); r != nil {
			if _, ok := r.(vrtCrashed); ok {
				crashed = true
				return
			}
			panic(r)
		}
	}()
	f()
	return false
}
func vB2I(b bool) uint8 {
	if b {
		return 1
	}
	return 0
}
func vHash(data []byte) []byte { h := sha256.Sum256(data); return h[:] }

// TestVerifReplay re-runs the harness named in VERIF_CASE on the natively compiled code with the
// solver's assignment and reports which assertions fail.
func TestVerifReplay(t *testing.T) {
	data, err := os.ReadFile(os.Getenv("VERIF_CASE"))
	if err != nil {
		t.Skip("no case")
	}
	var c struct {
		Harness string            ` + "`json:\"harness\"`" + `
		Tag     string            ` + "`json:\"tag\"`" + `
		Model   map[string]uint64 ` + "`json:\"model\"`" + `
		Params  map[string]int    ` + "`json:\"params\"`" + `
	}
	if err := json.Unmarshal(data, &c); err != nil {
		t.Fatal(err)
	}
	vrtModel, vrtParams = c.Model, c.Params
	defer func() {
		for _, f := range vrtCleanups {
			f()
		}
	}()
	h, ok := vrtHarnesses[c.Harness]
	if !ok {
		t.Fatalf("unknown harness %s", c.Harness)
	}
	func() {
		defer func() {
			if r := recover(); r != nil {
				if _, ok := r.(vrtAssumeFailed); ok {
					fmt.Println("VERIF-REPLAY: ASSUMPTION-FAILED")
					return
				}
				vrtFailed = append(vrtFailed, fmt.Sprintf("escaping-panic: %v", r))
			}
		}()
		h()
	}()
	for _, f := range vrtFailed {
		fmt.Printf("VERIF-REPLAY: FAILED %s\n", f)
	}
	if len(vrtFailed) > 0 {
		t.Fatalf("REPRODUCED natively: failed assertions %v (expected %q)", vrtFailed, c.Tag)
	}
	fmt.Println("VERIF-REPLAY: NOT-REPRODUCED")
}
`

var harnessFn = regexp.MustCompile(`(?m)^func (V(?:Harness|Conform)[A-Za-z0-9_]*)\(\)`)

// writeReplay writes a self-contained replay package for one counterexample and returns its directory.
func writeReplay(verif, repo string, u *Unit, dir string, fn, tag string, params map[string]int, model map[string]uint64, extra map[string]any) error {
	if err := os.MkdirAll(dir, 0o755); err != nil {
		return err
	}
	c := map[string]any{"harness": fn, "tag": tag, "model": model, "params": params, "unit": u.Name, "pkg": u.Pkg}
	for k, v := range extra {
		c[k] = v
	}
	b, _ := json.MarshalIndent(c, "", " ")
	if err := os.WriteFile(filepath.Join(dir, "case.json"), b, 0o644); err != nil {
		return err
	}
	hdir := filepath.Join(verif, "harness", u.Harness)
	files, _ := filepath.Glob(filepath.Join(hdir, "*.go"))
	rep := map[string]string{}
	pkgName := ""
	var fns []string
	for _, f := range files {
		src, err := os.ReadFile(f)
		if err != nil {
			return err
		}
		if m := pkgClause.FindSubmatch(src); m != nil && pkgName == "" {
			pkgName = string(m[1])
		}
		for _, m := range harnessFn.FindAllSubmatch(src, -1) {
			fns = append(fns, string(m[1]))
		}
		base := strings.TrimSuffix(filepath.Base(f), ".go")
		rep[filepath.Join(repo, u.Pkg, "zz_verif_"+base+"_test.go")] = f
	}
	var rt strings.Builder
	rt.WriteString("package " + pkgName + "\n" + replayRuntime + "\nvar vrtHarnesses = map[string]func(){\n")
	for _, f := range fns {
		fmt.Fprintf(&rt, "\t%q: %s,\n", f, f)
	}
	rt.WriteString("}\n")
	rtPath := filepath.Join(dir, "zz_verif_rt_test.go")
	if err := os.WriteFile(rtPath, []byte(rt.String()), 0o644); err != nil {
		return err
	}
	rep[filepath.Join(repo, u.Pkg, "zz_verif_rt_test.go")] = rtPath
	ob, _ := json.MarshalIndent(map[string]any{"Replace": rep}, "", " ")
	if err := os.WriteFile(filepath.Join(dir, "overlay.json"), ob, 0o644); err != nil {
		return err
	}
	sh := fmt.Sprintf("#!/bin/sh\n# re-runs this counterexample on the natively compiled code of %s\nexport GOFLAGS=-mod=mod GOPROXY=off GOSUMDB=off GOTOOLCHAIN=local\nulimit -v 12000000 2>/dev/null\ncd %s && VERIF_CASE=%s/case.json go test -tags verif -vet=off -count=1 -overlay %s/overlay.json -run 'TestVerifReplay$' -v %s\n",
		u.Pkg, repo, dir, dir, u.Pkg)
	return os.WriteFile(filepath.Join(dir, "replay.sh"), []byte(sh), 0o755)
}

// runReplay executes a replay package; reproduced reports whether some assertion failed natively.
func runReplay(dir string, timeout time.Duration) (reproduced bool, failedTags []string, out string, err error) {
	ctx, cancel := context.WithTimeout(context.Background(), timeout)
	defer cancel()
	cmd := exec.CommandContext(ctx, "/bin/sh", filepath.Join(dir, "replay.sh"))
	cmd.SysProcAttr = &syscall.SysProcAttr{Setpgid: true}
	cmd.Cancel = func() error { return syscall.Kill(-cmd.Process.Pid, syscall.SIGKILL) }
	cmd.WaitDelay = 5 * time.Second
	b, _ := cmd.CombinedOutput()
	out = string(b)
	_ = os.WriteFile(filepath.Join(dir, "replay.out"), b, 0o644)
	if ctx.Err() != nil {
		// a native hang is a reproduction for termination properties
		return true, []string{"native-timeout"}, out, nil
	}
	for _, l := range strings.Split(out, "\n") {
		if strings.HasPrefix(l, "VERIF-REPLAY: FAILED ") {
			failedTags = append(failedTags, strings.TrimPrefix(l, "VERIF-REPLAY: FAILED "))
		}
	}
	switch {
	case len(failedTags) > 0:
		return true, failedTags, out, nil
	case strings.Contains(out, "VERIF-REPLAY: NOT-REPRODUCED"):
		return false, nil, out, nil
	case strings.Contains(out, "VERIF-REPLAY: ASSUMPTION-FAILED"):
		return false, nil, out, fmt.Errorf("the assignment violates a harness assumption natively")
	case strings.Contains(out, "fatal error:") || strings.Contains(out, "panic:"):
		return true, []string{"native-crash"}, out, nil
	}
	return false, nil, out, fmt.Errorf("replay did not run (build failure?)")
}
