package main

import (
	"encoding/json"
	"fmt"
	"os"
	"path/filepath"
	"sort"
	"strconv"
	"strings"
	"time"

	"gosym/interp"
)

type pending struct {
	unit   *Unit
	res    *interp.CaseResult
	v      interp.Violation
	count  int
}

type unitStat struct {
	Unit        string         `json:"unit"`
	Fn          string         `json:"fn"`
	What        string         `json:"what,omitempty"`
	Solver      string         `json:"solver"`
	Mutant      bool           `json:"mutant,omitempty"`
	Cases       int            `json:"cases"`
	Paths       int            `json:"paths"`
	Forks       int            `json:"forks"`
	Infeasible  int            `json:"pruned_infeasible"`
	Aborted     int            `json:"aborted"`
	Steps       int64          `json:"ssa_instructions"`
	Queries     int            `json:"queries"`
	Sat         int            `json:"sat"`
	Unsat       int            `json:"unsat"`
	Unknown     int            `json:"unknown"`
	AssertQ     int            `json:"assertion_queries"`
	SolverS     float64        `json:"solver_s"`
	WallS       float64        `json:"wall_s"`
	LoadS       float64        `json:"load_s"`
	Packages    int            `json:"packages_loaded"`
	Workers     int            `json:"workers"`
	MaxDecision int            `json:"max_decisions_per_path"`
	Bounds      map[string][]int `json:"bounds"`
	Reached     map[string]int `json:"reached"`
	Violations  map[string]int `json:"violations_by_tag,omitempty"`
	Verdict     string         `json:"verdict"`
}

type candSample struct {
	unit  string
	paths int
	v     any
}

type report struct {
	candSamples []candSample
	spec     *CheckSpec
	tier     string
	seed     int
	verif    string
	repo     string
	findings []Finding

	units        []unitStat
	inconclusive []string
	pend         []pending
	knownHits    map[string]int
	violLines    []string
	notes        []string
	samples      []any
	dawnFuncs    map[string]int
	depFuncs     map[string]int
	models       map[string]int
	replays      int
	conformed    int
	mutantsSeen  int
	mutantsOK    int
}

func newReport(spec *CheckSpec, tier string, seed int, verif, repo string, findings []Finding) *report {
	return &report{spec: spec, tier: tier, seed: seed, verif: verif, repo: repo, findings: findings,
		knownHits: map[string]int{}, dawnFuncs: map[string]int{}, depFuncs: map[string]int{}, models: map[string]int{}}
}

func (r *report) incon(format string, a ...any) {
	s := fmt.Sprintf(format, a...)
	for _, x := range r.inconclusive {
		if x == s {
			return
		}
	}
	r.inconclusive = append(r.inconclusive, s)
}

func (r *report) addUnit(o *unitOutcome) {
	u := o.unit
	st := unitStat{Unit: u.Name, Fn: u.Fn, What: u.What, Solver: o.solver, Mutant: len(u.Edits) > 0, Cases: len(o.results), WallS: o.wallS, LoadS: o.loadS,
		Packages: o.packages, Workers: o.nworkers, Reached: map[string]int{}, Violations: map[string]int{}, Bounds: map[string][]int{}}
	primary := o.solver == "z3"
	if o.fatal != "" {
		st.Verdict = "fatal: " + o.fatal
		r.units = append(r.units, st)
		if len(u.Edits) > 0 && strings.Contains(o.fatal, "mutant does not apply") {
			r.notes = append(r.notes, fmt.Sprintf("unit %s: %s (skipped)", u.Name, o.fatal))
			return
		}
		r.incon("unit %s: %s", u.Name, o.fatal)
		return
	}
	seenB := map[string]map[int]bool{}
	vcount := 0
	mustHit := false
	firstByTag := map[string]*pending{}
	for ri := range o.results {
		res := &o.results[ri]
		st.Paths += res.Paths
		st.Forks += res.Forks
		st.Infeasible += res.Infeasible
		st.Aborted += res.Aborted
		st.Steps += res.Steps
		st.Queries += res.Queries
		st.Sat += res.Sat
		st.Unsat += res.Unsat
		st.Unknown += res.Unknown
		st.AssertQ += res.AssertQueries
		st.SolverS += res.SolverS
		if res.MaxDecisions > st.MaxDecision {
			st.MaxDecision = res.MaxDecisions
		}
		for k, v := range res.Params {
			if seenB[k] == nil {
				seenB[k] = map[int]bool{}
			}
			if !seenB[k][v] {
				seenB[k][v] = true
				st.Bounds[k] = append(st.Bounds[k], v)
			}
		}
		for k, n := range res.Reached {
			st.Reached[k] += n
		}
		if primary && !u.MustFail {
			for k, n := range res.Inconclusive {
				r.incon("unit %s [%s]: %s (x%d)", u.Name, paramStr(res.Params), k, n)
			}
			d, _, deps := interp.FuncsByOrigin(res.Funcs, modulePrefix)
			for _, f := range d {
				r.dawnFuncs[f] += res.Funcs[f]
			}
			for _, f := range deps {
				r.depFuncs[f] += res.Funcs[f]
			}
			for k, n := range res.Models {
				r.models[k] += n
			}
			if len(res.SamplePaths) > 0 {
				r.candSamples = append(r.candSamples, candSample{u.Name, res.Paths, map[string]any{"unit": u.Name, "params": res.Params, "paths": res.Paths, "example_inputs_per_path": res.SamplePaths}})
			}
		}
		for _, v := range res.Violations {
			if len(u.OnlyTags) > 0 && !u.MustFail {
				mine := false
				for _, t := range u.OnlyTags {
					mine = mine || strings.HasPrefix(v.Tag, t)
				}
				if !mine {
					continue // an assertion of a sibling property sharing this harness
				}
			}
			vcount++
			st.Violations[v.Tag]++
			if u.MustFail {
				if len(u.MustTags) == 0 {
					mustHit = true
				}
				for _, t := range u.MustTags {
					if strings.HasPrefix(v.Tag, t) {
						mustHit = true
					}
				}
				continue
			}
			if !primary {
				continue
			}
			if v.Known != "" {
				r.knownHits[v.Known]++
				continue
			}
			key := v.Tag
			if p, ok := firstByTag[key]; ok {
				p.count++
				continue
			}
			p := &pending{unit: u, res: res, v: v, count: 1}
			firstByTag[key] = p
		}
	}
	for k := range st.Bounds {
		sort.Ints(st.Bounds[k])
	}
	if primary {
		var tags []string
		for t := range firstByTag {
			tags = append(tags, t)
		}
		sort.Strings(tags)
		for _, t := range tags {
			r.pend = append(r.pend, *firstByTag[t])
		}
		for _, m := range u.Expect {
			if st.Reached[m] == 0 {
				r.incon("unit %s: vacuity guard: marker %q was not reached by any feasible path", u.Name, m)
			}
		}
	}
	switch {
	case u.MustFail && len(u.Edits) > 0:
		r.mutantsSeen++
		if mustHit {
			r.mutantsOK++
			st.Verdict = "mutant reported (as required)"
		} else {
			st.Verdict = "MUTANT NOT REPORTED"
			r.incon("unit %s: sensitivity lost: the mutant of the audit set is no longer reported", u.Name)
		}
	case u.MustFail:
		if mustHit {
			st.Verdict = "reachability twin violated (as required)"
		} else {
			st.Verdict = "TWIN NOT VIOLATED"
			r.incon("unit %s: vacuity guard: the assert(false) twin was not violated", u.Name)
		}
	case vcount == 0:
		st.Verdict = "holds within bounds"
	default:
		st.Verdict = fmt.Sprintf("%d violating path/assertion pairs", vcount)
	}
	r.units = append(r.units, st)
}

// crossCheck compares the verdicts of the same unit under different solvers.
func (r *report) crossCheck(outs []*unitOutcome) {
	type sig struct {
		paths int
		viol  string
	}
	by := map[string]map[string]sig{}
	for _, o := range outs {
		if o.fatal != "" {
			continue
		}
		s := sig{}
		tags := map[string]int{}
		for _, res := range o.results {
			s.paths += res.Paths
			for _, v := range res.Violations {
				tags[v.Tag+"|"+v.Known]++
			}
		}
		var ks []string
		for k, n := range tags {
			ks = append(ks, fmt.Sprintf("%s:%d", k, n))
		}
		sort.Strings(ks)
		s.viol = strings.Join(ks, ";")
		if by[o.unit.Name] == nil {
			by[o.unit.Name] = map[string]sig{}
		}
		by[o.unit.Name][o.solver] = s
	}
	for name, m := range by {
		if len(m) < 2 {
			continue
		}
		base := m["z3"]
		for sv, s := range m {
			if s != base {
				r.incon("unit %s: solvers disagree: z3 paths=%d violations=[%s], %s paths=%d violations=[%s]", name, base.paths, base.viol, sv, s.paths, s.viol)
			}
		}
		r.notes = append(r.notes, fmt.Sprintf("unit %s: z3 4.8.12, z3 5.1.0 and cvc5 agree on %d paths and the same verdicts", name, base.paths))
	}
}

func sanitizeTag(s string) string {
	b := []byte(s)
	for i, c := range b {
		if !(c >= 'a' && c <= 'z' || c >= 'A' && c <= 'Z' || c >= '0' && c <= '9') {
			b[i] = '_'
		}
	}
	if len(b) > 40 {
		b = b[:40]
	}
	return string(b)
}

// conformAll runs every translator-validation unit natively and compares the observations.
func (r *report) conformAll(outs []*unitOutcome) {
	base := filepath.Join(r.verif, "replay", r.spec.Property)
	for _, o := range outs {
		if !o.unit.Conform || o.fatal != "" || o.solver != "z3" {
			continue
		}
		for i := range o.results {
			res := &o.results[i]
			dir := filepath.Join(base, fmt.Sprintf("conform-%s-%d", o.unit.Name, i))
			if err := writeReplay(r.verif, r.repo, o.unit, dir, res.Fn, "conform", res.Params, map[string]uint64{}, map[string]any{"replay_mode": "conformance"}); err != nil {
				r.incon("unit %s: cannot write conformance package: %v", o.unit.Name, err)
				continue
			}
			_, _, out, _ := runReplay(dir, 5*time.Minute)
			var native []string
			for _, l := range strings.Split(out, "\n") {
				if strings.HasPrefix(l, "VERIF-NOTE: ") {
					if s, err := strconv.Unquote(strings.TrimPrefix(l, "VERIF-NOTE: ")); err == nil {
						native = append(native, s)
					}
				}
			}
			if len(native) == 0 {
				r.incon("unit %s [%s]: conformance run produced no native observations (see %s/replay.out)", o.unit.Name, paramStr(res.Params), dir)
				continue
			}
			if len(native) != len(res.Notes) {
				r.incon("unit %s [%s]: TRANSLATOR DISAGREEMENT: %d observations in the engine, %d natively", o.unit.Name, paramStr(res.Params), len(res.Notes), len(native))
				continue
			}
			bad := 0
			for k := range native {
				if native[k] != res.Notes[k] {
					if bad == 0 {
						r.incon("unit %s [%s]: TRANSLATOR DISAGREEMENT at observation %d: engine %q, native %q", o.unit.Name, paramStr(res.Params), k, res.Notes[k], native[k])
					}
					bad++
				}
			}
			r.conformed += len(native) - bad
			if len(r.samples) < 14 && len(native) > 0 {
				r.samples = append(r.samples, map[string]any{"translator_validation": o.unit.Name, "observation_engine_and_native": native[0]})
			}
		}
	}
}

func (r *report) replayAll() {
	base := filepath.Join(r.verif, "replay", r.spec.Property)
	for i := range r.pend {
		p := &r.pend[i]
		dir := filepath.Join(base, fmt.Sprintf("%s-%s-%d", p.unit.Name, sanitizeTag(p.v.Tag), i))
		mode := p.unit.Replay
		if mode == "" {
			mode = "native"
		}
		extra := map[string]any{"replay_mode": mode, "decisions": p.v.Decisions, "target_stack": p.v.Stack,
			"same_assertion_on_other_paths": p.count - 1}
		if err := writeReplay(r.verif, r.repo, p.unit, dir, p.res.Fn, p.v.Tag, p.res.Params, p.v.Model, extra); err != nil {
			r.incon("unit %s: cannot write replay package: %v", p.unit.Name, err)
			continue
		}
		desc := fmt.Sprintf("unit=%s assertion=%q params[%s] inputs{%s} (+%d more paths)", p.unit.Name, p.v.Tag, paramStr(p.res.Params), modelStr(p.v.Model), p.count-1)
		if mode == "symbolic" {
			// obligation / kernel harnesses run against modelled environments: the counterexample is
			// the pre-state and environment choices, over the SSA of the real functions
			r.violLines = append(r.violLines, fmt.Sprintf("VIOLATION property=%s replay=%s", r.spec.Property, dir))
			r.notes = append(r.notes, "counterexample: "+desc)
			continue
		}
		r.replays++
		to := 5 * time.Minute
		if strings.HasPrefix(p.v.Tag, "nontermination") {
			to = 30 * time.Second // a native run that is still going after this long is the hang
		}
		ok, tags, _, err := runReplay(dir, to)
		same := false
		for _, t := range tags {
			// the native run must fail the SAME assertion (run-time panics and hangs carry texts that
			// differ between the engine and the Go runtime: compared by kind)
			same = same || t == p.v.Tag || t == "native-timeout" || t == "native-crash" ||
				(strings.HasPrefix(t, "escaping-panic") && strings.HasPrefix(p.v.Tag, "escaping-panic"))
		}
		switch {
		case err != nil:
			r.incon("unit %s: replay of %q failed to run: %v (see %s/replay.out)", p.unit.Name, p.v.Tag, err, dir)
		case ok && !same:
			r.incon("unit %s: the native replay of %q failed other assertions (%s) but not this one (encoder or model defect, not reported as a violation): %s", p.unit.Name, p.v.Tag, strings.Join(tags, ","), desc)
		case ok:
			r.violLines = append(r.violLines, fmt.Sprintf("VIOLATION property=%s replay=%s", r.spec.Property, dir))
			r.notes = append(r.notes, fmt.Sprintf("counterexample (reproduced natively: %s): %s", strings.Join(tags, ","), desc))
		default:
			r.incon("unit %s: counterexample for %q did not reproduce on the native build (encoder or model defect, not reported as a violation): %s", p.unit.Name, p.v.Tag, desc)
		}
	}
}

func topN(m map[string]int, n int) []string {
	var ks []string
	for k := range m {
		ks = append(ks, k)
	}
	sort.Strings(ks)
	if n > 0 && len(ks) > n {
		ks = ks[:n]
	}
	return ks
}

func (r *report) finish(wall float64, writeEvidence bool) int {
	id := r.spec.Property
	// known findings: one line per listed region that was hit
	var regions []string
	for k := range r.knownHits {
		regions = append(regions, k)
	}
	sort.Strings(regions)
	for _, rg := range regions {
		what := rg
		for _, f := range r.findings {
			if f.Property == id && f.Region == rg {
				what = f.Region + ": " + f.What
			}
		}
		fmt.Printf("KNOWN-FINDING: property=%s %s\n", id, what)
	}
	for _, n := range r.notes {
		fmt.Println("note:", n)
	}
	for _, l := range r.violLines {
		fmt.Println(l)
	}
	for _, l := range r.inconclusive {
		fmt.Printf("INCONCLUSIVE property=%s %s\n", id, l)
	}

	tot := unitStat{}
	var samples []any
	for _, u := range r.units {
		if u.Solver != "z3" {
			continue
		}
		tot.Paths += u.Paths
		tot.Forks += u.Forks
		tot.Queries += u.Queries
		tot.Sat += u.Sat
		tot.Unsat += u.Unsat
		tot.Unknown += u.Unknown
		tot.AssertQ += u.AssertQ
		tot.SolverS += u.SolverS
		tot.Steps += u.Steps
		tot.Cases += u.Cases
	}
	// the largest explorations, at most three per unit
	sort.SliceStable(r.candSamples, func(i, j int) bool { return r.candSamples[i].paths > r.candSamples[j].paths })
	perUnit := map[string]int{}
	for _, c := range r.candSamples {
		if perUnit[c.unit] < 3 && len(samples) < 12 {
			perUnit[c.unit]++
			samples = append(samples, c.v)
		}
	}
	samples = append(samples, r.samples...)
	for _, p := range r.pend {
		samples = append(samples, map[string]any{"counterexample": p.v.Tag, "unit": p.unit.Name, "params": p.res.Params, "inputs": p.v.Model})
	}
	if len(samples) == 0 {
		for _, u := range r.units {
			samples = append(samples, map[string]any{"unit": u.Unit, "fn": u.Fn, "bounds": u.Bounds, "paths": u.Paths})
		}
	}
	verdict := "holds within the stated bounds"
	code := 0
	if len(r.inconclusive) > 0 {
		verdict = "inconclusive"
		code = 2
	}
	if len(r.violLines) > 0 {
		verdict = "violation"
		code = 1
	}
	level := r.spec.Level
	if level == "" {
		level = "model_checking"
	}
	cov := map[string]any{
		"states":                        max(tot.Paths, 1),
		"transitions":                   max(tot.Forks+tot.Paths, 1),
		"traces_validated_against_impl": r.replays + r.conformed,
		"samples":                       samples,
		"exhaustive":                    false,
		"explanation":                   r.spec.Explanation,
		"bounds":                        r.spec.Bounds,
		"obligations":                   tot.AssertQ,
		"discharged":                    tot.AssertQ - len(r.pend) - len(r.knownHits),
		"cases":                         tot.Cases,
		"feasible_paths":                tot.Paths,
		"solver_queries":                map[string]int{"total": tot.Queries, "sat": tot.Sat, "unsat": tot.Unsat, "unknown": tot.Unknown, "assertion_queries": tot.AssertQ},
		"solver_wall_s":                 tot.SolverS,
		"ssa_instructions_interpreted":  tot.Steps,
		"solver":                        "z3 4.8.12 (/usr/bin/z3 -in, one process per worker, push/pop)",
		"units":                         r.units,
		"functions_encoded_dawn":        topN(r.dawnFuncs, 0),
		"functions_encoded_dependencies": topN(r.depFuncs, 60),
		"functions_encoded_dependencies_total": len(r.depFuncs),
		"models_hit":                    r.models,
		"known_findings_matched":        regions,
		"mutants_required":              r.mutantsSeen,
		"mutants_reported":              r.mutantsOK,
		"native_replays":                r.replays,
		"conformance_observations":      r.conformed,
		"inconclusive":                  r.inconclusive,
		"verdict":                       verdict,
		"trusted_base":                  r.spec.TrustedBase,
		"encoding":                      "go/ssa (x/tools v0.29.0) rebuilt from the repository working tree on this run; symbolic interpreter gosym; SMT-LIB2 QF_BV",
	}
	ev := map[string]any{
		"property_id": id, "tier": r.tier, "seed": r.seed, "level": level,
		"coverage": cov, "assumptions": r.spec.Assumptions, "wall_s": wall, "violations": len(r.violLines),
	}
	if writeEvidence {
		os.MkdirAll(filepath.Join(r.verif, "evidence"), 0o755)
		b, _ := json.MarshalIndent(ev, "", " ")
		if err := os.WriteFile(filepath.Join(r.verif, "evidence", id+".json"), append(b, '\n'), 0o644); err != nil {
			fmt.Println("INCONCLUSIVE property=" + id + " cannot write evidence: " + err.Error())
			return 2
		}
	}
	fmt.Printf("%s property=%s tier=%s units=%d cases=%d paths=%d queries=%d (unsat %d, sat %d, unknown %d) solver=%.1fs wall=%.1fs mutants=%d/%d: %s\n",
		map[int]string{0: "PASS", 1: "FAIL", 2: "INCONCLUSIVE"}[code], id, r.tier, len(r.units), tot.Cases, tot.Paths, tot.Queries, tot.Unsat, tot.Sat, tot.Unknown, tot.SolverS, wall, r.mutantsOK, r.mutantsSeen, verdict)
	return code
}
