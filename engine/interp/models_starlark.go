package interp

import (
	"go/types"
)

// intModel is the engine's representation of starlark.Int's implementation word
// (the portable union of int_generic.go): a small int64 (possibly symbolic) or a big pointer.
type intModel struct {
	small value // int64 or sym
	big   value // *value (pointer to big.Int) or nil
}

func registerStarlarkModels() {
	externals["go.starlark.net/starlark.makeSmallInt"] = func(fr *frame, args []value) value {
		return structure{intModel{small: args[0], big: (*value)(nil)}}
	}
	externals["go.starlark.net/starlark.makeBigInt"] = func(fr *frame, args []value) value {
		return structure{intModel{small: int64(0), big: args[0]}}
	}
	externals["(go.starlark.net/starlark.Int).get"] = func(fr *frame, args []value) value {
		m := args[0].(structure)[0].(intModel)
		return tuple{m.small, m.big}
	}
	_ = types.Int
}

func init() {
	externals["go.starlark.net/starlark.reserveAddresses"] = func(fr *frame, args []value) value {
		return uintptr(0) // the mmap'd small-int region is not used by the Int model
	}
}

func init() {
	externals["go.starlark.net/starlark.goStringHash"] = func(fr *frame, args []value) value {
		s, ok := args[0].(string)
		if !ok {
			panic(pathAbort{"unsupported: hashing a symbolic string (starlark dict/set key)"})
		}
		var h uint32 = 2166136261
		for i := 0; i < len(s); i++ {
			h ^= uint32(s[i])
			h *= 16777619
		}
		return uintptr(h)
	}
}
