// Copyright 2013 The Go Authors. All rights reserved.
// Use of this source code is governed by a BSD-style
// license that can be found in the LICENSE file.

package interp

// Custom hashtable atop map.
// For use when the key's equivalence relation is not consistent with ==.

// The Go specification doesn't address the atomicity of map operations.
// The FAQ states that an implementation is permitted to crash on
// concurrent map access.

import (
	"fmt"
	"reflect"
	"sort"
	"go/types"
)

type hashable interface {
	hash(t types.Type) int
	eq(t types.Type, x interface{}) bool
}

type entry struct {
	key   hashable
	value value
	next  *entry
}

// A hashtable atop the built-in map.  Since each bucket contains
// exactly one hash value, there's no need to perform hash-equality
// tests when walking the linked list.  Rehashing is done by the
// underlying map.
type hashmap struct {
	keyType types.Type
	table   map[int]*entry
	length  int // number of entries in map
	order   []hashable // keys in insertion order: iteration must be deterministic for re-execution
}

func (m *hashmap) dropOrder(k hashable) {
	for i, o := range m.order {
		if k.eq(m.keyType, o) {
			m.order = append(m.order[:i:i], m.order[i+1:]...)
			return
		}
	}
}

// orderedEntries returns the entries in insertion order.
func (m *hashmap) orderedEntries() []*entry {
	if m == nil {
		return nil
	}
	var res []*entry
	for _, k := range m.order {
		hash := k.hash(m.keyType)
		for e := m.table[hash]; e != nil; e = e.next {
			if k.eq(m.keyType, e.key) {
				res = append(res, e)
				break
			}
		}
	}
	return res
}

// builtin maps (map[value]value) keep their insertion order in a side table keyed by map identity
var mapOrder = map[uintptr][]value{}

// mapPad: a symbolic number of further entries (intrinsic vMapPad); mapKeep keeps maps with side
// tables alive so that their identity is not reused within a path
var mapPad = map[uintptr]*Term{}
var mapKeep []map[value]value

func mapID(m map[value]value) uintptr { return reflect.ValueOf(m).Pointer() }

func mapSet(m map[value]value, k, v value) {
	if _, ok := m[k]; !ok {
		id := mapID(m)
		if _, seen := mapOrder[id]; !seen {
			mapKeep = append(mapKeep, m)
		}
		mapOrder[id] = append(mapOrder[id], k)
	}
	m[k] = v
}

func mapDelete(m map[value]value, k value) {
	if _, ok := m[k]; !ok {
		return
	}
	delete(m, k)
	id := mapID(m)
	o := mapOrder[id]
	for i := range o {
		if o[i] == k {
			mapOrder[id] = append(o[:i:i], o[i+1:]...)
			return
		}
	}
}

func mapKeys(m map[value]value) []value {
	o := mapOrder[mapID(m)]
	if len(o) != len(m) {
		// a map filled by engine code rather than MapUpdate: fall back to a sorted order
		var ks []value
		for k := range m {
			ks = append(ks, k)
		}
		sort.Slice(ks, func(i, j int) bool { return fmt.Sprintf("%T%v", ks[i], ks[i]) < fmt.Sprintf("%T%v", ks[j], ks[j]) })
		return ks
	}
	return append([]value(nil), o...)
}

// makeMap returns an empty initialized map of key type kt,
// preallocating space for reserve elements.
func makeMap(kt types.Type, reserve int64) value {
	if usesBuiltinMap(kt) {
		return make(map[value]value, reserve)
	}
	return &hashmap{keyType: kt, table: make(map[int]*entry, reserve)}
}

// delete removes the association for key k, if any.
func (m *hashmap) delete(k hashable) {
	if m != nil {
		hash := k.hash(m.keyType)
		head := m.table[hash]
		if head != nil {
			if k.eq(m.keyType, head.key) {
				m.table[hash] = head.next
				m.length--
				m.dropOrder(k)
				return
			}
			prev := head
			for e := head.next; e != nil; e = e.next {
				if k.eq(m.keyType, e.key) {
					prev.next = e.next
					m.length--
					m.dropOrder(k)
					return
				}
				prev = e
			}
		}
	}
}

// lookup returns the value associated with key k, if present, or
// value(nil) otherwise.
func (m *hashmap) lookup(k hashable) value {
	if m != nil && m.length > 0 {
		if containsSym(k) {
			// symbolic key: linear scan with symbolic equality (insertion order is irrelevant for lookup)
			for _, e := range m.orderedEntries() {
				switch r := equalsV(m.keyType, k, e.key).(type) {
				case bool:
					if r {
						return e.value
					}
				case sym:
					if ex.branch(r.t) {
						return e.value
					}
				}
			}
			return nil
		}
		hash := k.hash(m.keyType)
		for e := m.table[hash]; e != nil; e = e.next {
			if k.eq(m.keyType, e.key) {
				return e.value
			}
		}
	}
	return nil
}

// insert updates the map to associate key k with value v.  If there
// was already an association for an eq() (though not necessarily ==)
// k, the previous key remains in the map and its associated value is
// updated.
func (m *hashmap) insert(k hashable, v value) {
	hash := k.hash(m.keyType)
	head := m.table[hash]
	for e := head; e != nil; e = e.next {
		if k.eq(m.keyType, e.key) {
			e.value = v
			return
		}
	}
	m.table[hash] = &entry{
		key:   k,
		value: v,
		next:  head,
	}
	m.length++
	m.order = append(m.order, k)
}

// len returns the number of key/value associations in the map.
func (m *hashmap) len() int {
	if m != nil {
		return m.length
	}
	return 0
}

// entries returns a rangeable map of entries.
func (m *hashmap) entries() map[int]*entry {
	if m != nil {
		return m.table
	}
	return nil
}

// ---- symbolic string keys in builtin maps ----
// A symstr cannot be a host map key, so entries whose key has symbolic bytes live in a side list per
// map; lookups compare with symbolic equality (a decision per candidate of the same length).

type symKV struct {
	k symstr
	v value
}

var symEntries = map[uintptr][]symKV{}

func keyEqDecide(a, b value) bool {
	if strLen(a) != strLen(b) {
		return false
	}
	switch r := strEq(a, b).(type) {
	case bool:
		return r
	case sym:
		return ex.branch(r.t)
	}
	return false
}

// mapGet looks k up in m (k may be a symbolic string).
func mapGet(m map[value]value, k value) (value, bool) {
	if m == nil {
		return nil, false
	}
	id := mapID(m)
	side := symEntries[id]
	if ks, isSym := k.(symstr); isSym {
		for _, ck := range mapOrder[id] {
			switch ck := ck.(type) {
			case string:
				if keyEqDecide(ks, ck) {
					return m[ck], true
				}
			}
		}
		for _, e := range side {
			if keyEqDecide(ks, e.k) {
				return e.v, true
			}
		}
		return nil, false
	}
	if v, ok := m[k]; ok {
		return v, true
	}
	if _, isStr := k.(string); isStr {
		for _, e := range side {
			if keyEqDecide(k, e.k) {
				return e.v, true
			}
		}
	}
	return nil, false
}

func mapLen(m map[value]value) int {
	if m == nil {
		return 0
	}
	return len(m) + len(symEntries[mapID(m)])
}

func mapSetAny(m map[value]value, k, v value) {
	id := mapID(m)
	if ks, isSym := k.(symstr); isSym {
		for _, ck := range mapOrder[id] {
			if cs, ok := ck.(string); ok && keyEqDecide(ks, cs) {
				m[cs] = v
				return
			}
		}
		side := symEntries[id]
		for i := range side {
			if keyEqDecide(ks, side[i].k) {
				side[i].v = v
				return
			}
		}
		symEntries[id] = append(side, symKV{ks, v})
		return
	}
	if _, isStr := k.(string); isStr {
		side := symEntries[id]
		for i := range side {
			if keyEqDecide(k, side[i].k) {
				side[i].v = v
				return
			}
		}
	}
	mapSet(m, k, v)
}

func mapDeleteAny(m map[value]value, k value) {
	if m == nil {
		return
	}
	id := mapID(m)
	if ks, isSym := k.(symstr); isSym {
		for _, ck := range mapOrder[id] {
			if cs, ok := ck.(string); ok && keyEqDecide(ks, cs) {
				mapDelete(m, cs)
				return
			}
		}
	} else if _, ok := m[k]; ok {
		mapDelete(m, k)
		return
	}
	if !isStrVal(k) {
		return
	}
	side := symEntries[id]
	for i := range side {
		if keyEqDecide(k, side[i].k) {
			symEntries[id] = append(side[:i:i], side[i+1:]...)
			return
		}
	}
}

// mapEntries returns the entries in a deterministic order (concrete keys in insertion order, then
// the symbolic-key entries).
func mapEntries(m map[value]value) [][2]value {
	var res [][2]value
	for _, k := range mapKeys(m) {
		res = append(res, [2]value{k, m[k]})
	}
	if m != nil {
		for _, e := range symEntries[mapID(m)] {
			res = append(res, [2]value{e.k, e.v})
		}
	}
	return res
}
