package interp

import (
	"bufio"
	"fmt"
	"io"
	"os"
	"os/exec"
	"strconv"
	"strings"
	"time"
)

// Solver drives one long-lived SMT solver process over a pipe.
type Solver struct {
	cmd      *exec.Cmd
	in       io.WriteCloser
	out      *bufio.Reader
	declared map[string]int
	depth    int
	declAt   []map[string]bool // variables declared at each push level

	Queries  int
	Sat      int
	Unsat    int
	Unknown  int
	Errors   int // "(error" lines seen: any makes the run inconclusive
	Time     time.Duration
	Name     string
	Log      io.Writer
}

func NewSolver(path string, args ...string) (*Solver, error) {
	cmd := exec.Command(path, args...)
	in, err := cmd.StdinPipe()
	if err != nil {
		return nil, err
	}
	out, err := cmd.StdoutPipe()
	if err != nil {
		return nil, err
	}
	cmd.Stderr = cmd.Stdout
	if err := cmd.Start(); err != nil {
		return nil, err
	}
	s := &Solver{cmd: cmd, in: in, out: bufio.NewReader(out), declared: map[string]int{}, Name: path}
	s.declAt = []map[string]bool{{}}
	s.send("(set-option :print-success false)")
	s.send("(set-option :produce-models true)")
	if strings.Contains(path, "cvc5") {
		s.send("(set-logic QF_BV)")
	}
	return s, nil
}

func (s *Solver) send(line string) {
	if s.Log != nil {
		fmt.Fprintln(s.Log, line)
	}
	io.WriteString(s.in, line+"\n")
}

func (s *Solver) declare(t *Term) {
	vs := map[string]int{}
	t.vars(vs)
	for name, w := range vs {
		if _, ok := s.declared[name]; ok {
			continue
		}
		s.declared[name] = w
		s.declAt[len(s.declAt)-1][name] = true
		if w == 0 {
			s.send(fmt.Sprintf("(declare-const %s Bool)", name))
		} else {
			s.send(fmt.Sprintf("(declare-const %s (_ BitVec %d))", name, w))
		}
	}
}

func (s *Solver) Push() {
	s.send("(push 1)")
	s.declAt = append(s.declAt, map[string]bool{})
}

func (s *Solver) Pop() {
	s.send("(pop 1)")
	top := s.declAt[len(s.declAt)-1]
	for name := range top {
		delete(s.declared, name)
	}
	s.declAt = s.declAt[:len(s.declAt)-1]
}

func (s *Solver) Assert(t *Term) {
	s.declare(t)
	s.send("(assert " + t.String() + ")")
}

// Check returns "sat", "unsat" or "unknown" (any error is reported as unknown).
func (s *Solver) Check() string {
	t0 := time.Now()
	s.send("(check-sat)")
	line, err := s.out.ReadString('\n')
	s.Time += time.Since(t0)
	s.Queries++
	line = strings.TrimSpace(line)
	if err != nil {
		s.Unknown++
		s.Errors++
		return "unknown"
	}
	for strings.HasPrefix(line, "(error") {
		// an error line precedes the answer; whatever follows is not to be believed
		s.Errors++
		fmt.Fprintln(os.Stderr, "SOLVER ERROR:", line)
		line, err = s.out.ReadString('\n')
		line = strings.TrimSpace(line)
		if err != nil {
			s.Unknown++
			return "unknown"
		}
		if line == "sat" || line == "unsat" || line == "unknown" {
			s.Unknown++
			return "unknown"
		}
	}
	switch line {
	case "sat":
		s.Sat++
	case "unsat":
		s.Unsat++
	default:
		s.Unknown++
		if s.Log != nil {
			fmt.Fprintln(s.Log, "; solver said:", line)
		}
		return "unknown"
	}
	return line
}

// CheckWith checks satisfiability of the current assertions plus extra, without keeping extra.
func (s *Solver) CheckWith(extra *Term) string {
	s.Push()
	s.Assert(extra)
	r := s.Check()
	s.Pop()
	return r
}

// Values returns the model values for the given variables (must follow a sat answer, before pop).
func (s *Solver) Values(vars map[string]int) map[string]uint64 {
	res := map[string]uint64{}
	for name, w := range vars {
		if _, ok := s.declared[name]; !ok {
			continue
		}
		s.send("(get-value (" + name + "))")
		line, _ := s.out.ReadString('\n')
		line = strings.TrimSpace(line)
		// ((name #x0a)) or ((name #b101)) or ((name true))
		i := strings.LastIndex(line, " ")
		if i < 0 {
			continue
		}
		tok := strings.TrimRight(line[i+1:], ")")
		switch {
		case strings.HasPrefix(tok, "#x"):
			v, _ := strconv.ParseUint(tok[2:], 16, 64)
			res[name] = v
		case strings.HasPrefix(tok, "#b"):
			v, _ := strconv.ParseUint(tok[2:], 2, 64)
			res[name] = v
		case tok == "true":
			res[name] = 1
		case tok == "false":
			res[name] = 0
		}
		_ = w
	}
	return res
}

// SetTimeout sets the per-query timeout in milliseconds.
func (s *Solver) SetTimeout(ms int) {
	if strings.Contains(s.Name, "cvc5") {
		return // given on the command line (--tlimit-per)
	}
	s.send(fmt.Sprintf("(set-option :timeout %d)", ms))
}

func (s *Solver) Close() {
	s.send("(exit)")
	s.in.Close()
	s.cmd.Wait()
}
