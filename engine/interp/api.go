package interp

import (
	"fmt"
	"go/token"
	"go/types"
	"os"
	"runtime/debug"
	"sort"
	"strings"
	"time"

	"golang.org/x/tools/go/ssa"
)

// Options of one harness run.
type Options struct {
	AllowInit    []string        // package paths whose init functions run (dawn's own always do)
	Params       map[string]int  // concrete bounds handed to the harness through vParam
	KnownRegions map[string]bool // vRegion names that the known-findings file lists as known
	StepLimit    int64           // interpreted SSA instructions per path
	MaxDecisions int             // decisions per path
	MaxCallDepth int
	SolverTimeMS int
	HangIsViolation bool // exceeding the step/decision bound is reported as non-termination
	ModulePrefix string // packages under this prefix always have their initialisers run
}

// CaseResult is what one exploration (one harness function at one parameter point) covered.
type CaseResult struct {
	Fn            string            `json:"fn"`
	Params        map[string]int    `json:"params"`
	Paths         int               `json:"paths"`
	Aborted       int               `json:"aborted"`
	Infeasible    int               `json:"infeasible"`
	Forks         int               `json:"forks"`
	MaxDecisions  int               `json:"max_decisions"`
	Steps         int64             `json:"steps"`
	Asserts       int               `json:"asserts"`
	AssertQueries int               `json:"assert_queries"`
	Pinned        int               `json:"pinned_branches"`
	Queries       int               `json:"queries"`
	Sat           int               `json:"sat"`
	Unsat         int               `json:"unsat"`
	Unknown       int               `json:"unknown"`
	SolverErrors  int               `json:"solver_errors"`
	SolverS       float64           `json:"solver_s"`
	WallS         float64           `json:"wall_s"`
	Reached       map[string]int    `json:"reached"`
	Inconclusive  map[string]int    `json:"inconclusive"`
	Violations    []Violation       `json:"violations"`
	Funcs         map[string]int    `json:"funcs"`
	Models        map[string]int    `json:"models"`
	Notes         []string          `json:"notes,omitempty"`
	SamplePaths   []string          `json:"sample_paths,omitempty"`
}

var hostPanicStacks = map[string]bool{}

func noteHostPanic(msg string) {
	if hostPanicStacks[msg] {
		return
	}
	hostPanicStacks[msg] = true
	fmt.Fprintf(os.Stderr, "ENGINE: host panic %q\ntarget stack:\n%s\nhost stack:\n%s\n", msg, targetStack(), debug.Stack())
}

// Machine is a loaded program ready to run harnesses (one per worker process).
type Machine struct {
	i   *interpreter
	pkg *ssa.Package
}

var modelsHit = map[string]int{}

func NewMachine(pkg *ssa.Package) *Machine {
	i := &interpreter{
		prog:       pkg.Prog,
		mode:       0,
		sizes:      &types.StdSizes{WordSize: 8, MaxAlign: 8},
		goroutines: 1,
		allowInit:  map[string]bool{},
		funcsSeen:  map[string]int{},
	}
	theInterp = i
	registerModels()
	registerStarlarkModels()
	registerFmtModels(i)
	registerSyncModels()
	registerSyncMapModels()
	harnessPkg = pkg
	for k, v := range lateModels {
		externals[k] = v
	}
	runtimePkg := i.prog.ImportedPackage("runtime")
	if runtimePkg == nil {
		panic("no runtime package")
	}
	i.runtimeErrorString = runtimePkg.Type("errorString").Object().Type()
	initReflect(i)
	i.rtypeMethods["Comparable"] = newMethod(i.reflectPackage, rtypeType, "Comparable")
	return &Machine{i: i, pkg: pkg}
}

// RunCase explores every path of harness function fnName.
func (m *Machine) RunCase(fnName string, s *Solver, opts Options) CaseResult {
	i := m.i
	pkg := m.pkg
	i.allowInit = map[string]bool{}
	for _, p := range opts.AllowInit {
		i.allowInit[p] = true
	}
	i.allowInit[pkg.Pkg.Path()] = true
	if opts.ModulePrefix != "" {
		for _, p := range i.prog.AllPackages() {
			if strings.HasPrefix(p.Pkg.Path(), opts.ModulePrefix) {
				i.allowInit[p.Pkg.Path()] = true
			}
		}
	}
	i.funcsSeen = map[string]int{}
	modelsHit = map[string]int{}
	i.redirect = nil
	i.globals = nil

	fn := pkg.Func(fnName)
	if fn == nil {
		return CaseResult{Fn: fnName, Params: opts.Params, Inconclusive: map[string]int{"engine: no such harness function " + fnName: 1}}
	}
	e := NewExplorer(s)
	e.Params = opts.Params
	if n := opts.Params["__shards"]; n > 1 {
		e.Shard, e.Shards, e.ShardDepth = opts.Params["__shard"], n, opts.Params["__shard_depth"]
	}
	e.KnownRegions = opts.KnownRegions
	e.HangIsViolation = opts.HangIsViolation
	if opts.StepLimit > 0 {
		e.StepLimit = opts.StepLimit
	}
	if opts.MaxDecisions > 0 {
		e.MaxDepth = opts.MaxDecisions
	}
	maxCallDepth = 400
	if opts.MaxCallDepth > 0 {
		maxCallDepth = opts.MaxCallDepth
	}
	q0, sat0, unsat0, unk0, err0, t0 := s.Queries, s.Sat, s.Unsat, s.Unknown, s.Errors, s.Time
	e.Explore(func() {
		// fresh globals for every path
		heldLocks = map[*value]bool{}
		hashCalls = nil
		rwHeld = map[*value]string{}
		syncMaps = map[*value][]syncMapEntry{}
		mapOrder = map[uintptr][]value{}
		symEntries = map[uintptr][]symKV{}
		mapPad = map[uintptr]*Term{}
		mapKeep = nil
		for _, p := range lazyDone {
			// lazily initialised packages start each path uninitialised again
			delete(i.allowInit, p)
			if sp := i.prog.ImportedPackage(p); sp != nil && i.globals != nil {
				for _, mem := range sp.Members {
					if g, ok := mem.(*ssa.Global); ok {
						*i.globals[g] = zero(mustDeref(g.Type()))
					}
				}
			}
		}
		lazyDone = lazyDone[:0]
		if i.globals == nil {
			i.globals = make(map[*ssa.Global]*value)
			for _, p := range i.prog.AllPackages() {
				for _, mem := range p.Members {
					if g, ok := mem.(*ssa.Global); ok {
						cell := zero(mustDeref(g.Type()))
						i.globals[g] = &cell
					}
				}
			}
		} else {
			// only packages whose initialisers run can have non-zero globals
			for _, p := range i.prog.AllPackages() {
				if !i.allowInit[p.Pkg.Path()] {
					continue
				}
				for _, mem := range p.Members {
					if g, ok := mem.(*ssa.Global); ok {
						*i.globals[g] = zero(mustDeref(g.Type()))
					}
				}
			}
		}
		call(i, nil, token.NoPos, pkg.Func("init"), nil)
		if i.redirect == nil {
			i.redirect = map[string]*ssa.Function{}
			add := func(mm map[value]value) {
				for k, v := range mm {
					f := pkg.Func(v.(string))
					if f == nil {
						panic(pathAbort{"engine: vStubTable names no harness function " + v.(string)})
					}
					i.redirect[k.(string)] = f
				}
			}
			// vStubTable applies to every harness of the directory; vStubTableFor[fn] to one
			if g, ok := pkg.Members["vStubTable"].(*ssa.Global); ok {
				if mm, ok := (*i.globals[g]).(map[value]value); ok {
					add(mm)
				}
			}
			// vZeroOK: variables of packages whose initialiser is not run that the harness declares
			// harmless to read as zero (e.g. passed straight into a stubbed function)
			if g, ok := pkg.Members["vZeroOK"].(*ssa.Global); ok {
				if lst, ok := (*i.globals[g]).([]value); ok {
					for _, n := range lst {
						zeroOK[n.(string)] = true
					}
				}
			}
			if g, ok := pkg.Members["vStubTableFor"].(*ssa.Global); ok {
				if outer, ok := (*i.globals[g]).(map[value]value); ok {
					if inner, ok := outer[fnName].(map[value]value); ok {
						add(inner)
					}
				}
			}
		}
		call(i, nil, token.NoPos, fn, nil)
	})
	res := CaseResult{
		Fn: fnName, Params: opts.Params,
		Paths: e.Paths, Aborted: e.Aborted, Infeasible: e.Infeasible, Forks: e.Forks,
		MaxDecisions: e.MaxDecisions, Steps: e.Steps, Asserts: e.Asserts, AssertQueries: e.AssertQueries,
		Pinned:  e.Pinned,
		Queries: s.Queries - q0, Sat: s.Sat - sat0, Unsat: s.Unsat - unsat0, Unknown: s.Unknown - unk0,
		SolverErrors: s.Errors - err0,
		SolverS:      (s.Time - t0).Seconds(), WallS: time.Since(e.Start).Seconds(),
		Reached: e.Reached, Inconclusive: e.Unsupported, Violations: e.Violations,
		Funcs: i.funcsSeen, Models: modelsHit, Notes: e.Notes, SamplePaths: e.SamplePaths,
	}
	if res.SolverErrors > 0 {
		res.Inconclusive[fmt.Sprintf("solver printed %d error line(s)", res.SolverErrors)]++
	}
	return res
}

var maxCallDepth = 400

// FuncsByOrigin splits the interpreted functions into dawn's, the harness's and dependencies'.
func FuncsByOrigin(funcs map[string]int, modulePrefix string) (dawn, harness, deps []string) {
	for k := range funcs {
		base := k
		switch {
		case strings.Contains(base, ".VHarness") || strings.Contains(base, ".v") && strings.Contains(base, modulePrefix) && isHarnessName(base):
			harness = append(harness, k)
		case strings.Contains(base, modulePrefix):
			dawn = append(dawn, k)
		default:
			deps = append(deps, k)
		}
	}
	sort.Strings(dawn)
	sort.Strings(harness)
	sort.Strings(deps)
	return
}

func isHarnessName(full string) bool {
	// harness helpers are named v<Upper>... by convention
	i := strings.LastIndex(full, ".")
	if i < 0 || i+2 >= len(full) {
		return false
	}
	n := full[i+1:]
	if j := strings.Index(n, "$"); j >= 0 {
		n = n[:j]
	}
	return len(n) >= 2 && n[0] == 'v' && n[1] >= 'A' && n[1] <= 'Z'
}

// ---- guard: globals of packages whose initialiser is not run ----

var lazyInit = map[string]bool{"unicode": true}
var lazyDone []string

var initAssigned map[*ssa.Global]bool
var GuardHits = map[string]int{}

// zeroOK lists globals of skipped packages whose zero value is their real initial state or whose
// readers are modelled.
var zeroOK = map[string]bool{}

func computeInitAssigned(prog *ssa.Program) {
	initAssigned = map[*ssa.Global]bool{}
	var root func(v ssa.Value) *ssa.Global
	root = func(v ssa.Value) *ssa.Global {
		switch v := v.(type) {
		case *ssa.Global:
			return v
		case *ssa.FieldAddr:
			return root(v.X)
		case *ssa.IndexAddr:
			return root(v.X)
		}
		return nil
	}
	for _, p := range prog.AllPackages() {
		for name, mem := range p.Members {
			f, ok := mem.(*ssa.Function)
			if !ok || !(name == "init" || strings.HasPrefix(name, "init#")) {
				continue
			}
			for _, b := range f.Blocks {
				for _, in := range b.Instrs {
					if st, ok := in.(*ssa.Store); ok {
						if g := root(st.Addr); g != nil {
							initAssigned[g] = true
						}
					}
				}
			}
		}
	}
}

func guardGlobal(i *interpreter, g *ssa.Global) {
	if initAssigned == nil {
		computeInitAssigned(i.prog)
	}
	if !initAssigned[g] {
		return
	}
	name := g.Pkg.Pkg.Path() + "." + g.Name()
	if zeroOK[name] {
		return
	}
	if lazyInit[g.Pkg.Pkg.Path()] {
		// a leaf package whose initialiser is too expensive to run on every path is initialised
		// the first time one of its variables is read on a path
		i.allowInit[g.Pkg.Pkg.Path()] = true
		lazyDone = append(lazyDone, g.Pkg.Pkg.Path())
		if f := g.Pkg.Func("init"); f != nil {
			call(i, nil, token.NoPos, f, nil)
		}
		return
	}
	GuardHits[name]++
	panic(pathAbort{"unsupported: read of " + name + ", a variable set by an initialiser that is not run (add the package to the unit's init list)"})
}

func init() {
	// errors.init computes reflectlite.TypeOf((*error)(nil)).Elem(); answered by the reflect model
	lateModels["internal/reflectlite.TypeOf"] = ext۰reflect۰TypeOf
}
