package interp

import (
	"fmt"
	"os"
	"runtime/debug"
	"sort"
	"strings"
	"time"
)

// Path exploration by deterministic re-execution with a decision prefix.

type decision struct {
	choice int  // alternative taken
	n      int  // number of alternatives
	forced bool // only one alternative was feasible (no pending sibling)
	tried  int  // bitmask of alternatives already explored (for n<=2) / next index
}

type pathAbort struct{ reason string }

// Violation is a satisfiable negated assertion (or an escaping panic / hang) with the solver's
// assignment to the harness's named inputs.
type Violation struct {
	Tag       string            `json:"tag"`
	Model     map[string]uint64 `json:"model"`
	Known     string            `json:"known,omitempty"` // name of the known-finding region it falls in
	Decisions int               `json:"decisions"`
	Stack     string            `json:"stack,omitempty"`
}

type region struct {
	name string
	t    *Term
}

type Explorer struct {
	S *Solver

	prefix []decision // decisions to replay
	trace  []decision // decisions of the current run

	inputs   map[string]int // declared nondet inputs of this run (name -> width)
	pinEq    map[string]uint64          // var == const facts on this path
	pinNe    map[string]map[uint64]bool // var != const facts on this path
	Pinned   int                        // branches decided by pins without a solver call
	inputSeq int

	// stats
	Paths, Aborted, Infeasible int
	Asserts, AssertQueries     int
	Violations                 []Violation
	HangIsViolation            bool
	KnownRegions               map[string]bool // region names listed as status=known for this unit
	regions                    []region        // regions declared on the current path
	Params                     map[string]int
	PathsWithViolation         int
	Notes                      []string
	SamplePaths                []string
	Forks                      int
	Reached                    map[string]int
	Unsupported                map[string]int
	MaxDecisions               int
	MaxDepth                   int
	Steps                      int64
	StepLimit                  int64
	stepsThisPath              int64
	Start                      time.Time
	// sharding: a case may be split over several workers; shard k of Shards keeps the paths whose
	// first ShardDepth unforced decisions hash to k (paths with fewer decisions are run by every
	// shard and counted by shard 0)
	Shard, Shards, ShardDepth int
	OtherShard                 int
	nfCount, shardID           int
}

var lastStack string

var ex *Explorer // the single active explorer (the prototype is single-threaded)

func NewExplorer(s *Solver) *Explorer {
	return &Explorer{S: s, Reached: map[string]int{}, Unsupported: map[string]int{}, StepLimit: 2_000_000, MaxDepth: 400}
}

// Explore runs body once per feasible path.
func (e *Explorer) Explore(body func()) {
	ex = e
	e.Start = time.Now()
	e.prefix = nil
	progress := os.Getenv("VERIF_PROGRESS") != ""
	for n := 0; ; n++ {
		e.runOnce(body)
		if progress && n%200 == 0 {
			var ch []int
			for _, d := range e.trace {
				ch = append(ch, d.choice)
			}
			fmt.Fprintf(os.Stderr, "progress: runs=%d paths=%d aborted=%d infeasible=%d queries=%d trace=%v\n", n, e.Paths, e.Aborted, e.Infeasible, e.S.Queries, ch)
		}
		// backtrack: find deepest decision with an untried alternative
		tr := e.trace
		i := len(tr) - 1
		for ; i >= 0; i-- {
			d := &tr[i]
			if !d.forced && d.choice+1 < d.n {
				break
			}
		}
		if i < 0 {
			return
		}
		np := make([]decision, i+1)
		copy(np, tr[:i+1])
		np[i].choice++
		e.prefix = np
	}
}

func (e *Explorer) runOnce(body func()) {
	e.trace = e.trace[:0]
	e.inputs = map[string]int{}
	e.pinEq = map[string]uint64{}
	e.pinNe = map[string]map[uint64]bool{}
	e.regions = e.regions[:0]
	e.inputSeq = 0
	e.stepsThisPath = 0
	e.nfCount, e.shardID = 0, 0
	panicSeen = false
	callStack = callStack[:0]
	e.S.Push()
	defer e.S.Pop()
	defer func() {
		if len(e.trace) > e.MaxDecisions {
			e.MaxDecisions = len(e.trace)
		}
		if r := recover(); r != nil {
			switch r := r.(type) {
			case pathAbort:
				if r.reason == "infeasible" {
					e.Infeasible++
				} else if r.reason == "other-shard" {
					e.OtherShard++
				} else {
					e.Aborted++
					if e.HangIsViolation && strings.HasPrefix(r.reason, "limit:") {
						// the property includes termination: a path that exceeds the step or
						// decision bound is a violation candidate (replayed natively under a timeout)
						e.PathsWithViolation++
						e.check(mkBool(true), "nontermination: "+r.reason)
					} else if r.reason != "assert-always-fails" {
						// unsupported construct, exceeded bound (unwinding), engine defect: the
						// path was not explored to its end, so the run is not a pass
						e.Unsupported[r.reason]++
					}
				}
			case targetPanic:
				// a panic escaped the harness: report as violation "escaping panic"
				if fn := unmodelledEnvTop(); fn != "" {
					// the interpreter ran into the body of an operating-system call that no model
					// stands in for (package inits of os/syscall are not run): that is a hole in the
					// environment model, not behaviour of the code under test
					e.Aborted++
					e.Unsupported["environment: panic inside unmodelled "+fn]++
					break
				}
				e.Paths++
				e.reportEscape("escaping-panic: " + toString(r.v))
			case crashPanic:
				e.Aborted++
				e.Unsupported["engine: vCrash outside vCatchCrash"]++
			default:
				e.Aborted++
				key := fmt.Sprintf("host panic: %v", r)
				if e.Unsupported[key] == 0 {
					fmt.Fprintf(os.Stderr, "HOST PANIC %v\ntarget stack:\n%s\n", r, lastStack)
					_ = debug.Stack
				}
				e.Unsupported[key]++
			}
			return
		}
		if e.Shards > 1 && e.nfCount < e.ShardDepth && e.Shard != 0 {
			return // a short path: every shard runs it, shard 0 counts it
		}
		e.Paths++
		if len(e.SamplePaths) < 3 && len(e.inputs) > 0 {
			if e.S.Check() == "sat" {
				m := e.S.Values(e.inputs)
				var ks []string
				for k := range m {
					if !strings.Contains(k, "_hash") {
						ks = append(ks, k)
					}
				}
				sort.Slice(ks, func(i, j int) bool { return inputOrd(ks[i]) < inputOrd(ks[j]) })
				var b strings.Builder
				for _, k := range ks {
					fmt.Fprintf(&b, "%s=%d ", k, m[k])
				}
				e.SamplePaths = append(e.SamplePaths, strings.TrimSpace(b.String()))
			}
		}
	}()
	body()
}

func inputOrd(name string) int {
	n := 0
	for i := 2; i < len(name) && name[i] >= '0' && name[i] <= '9'; i++ {
		n = n*10 + int(name[i]-'0')
	}
	return n
}

// choose records a decision among n alternatives where feasible(i) gives the constraint of alt i.
// Returns the chosen alternative; the corresponding constraint is asserted on the solver.
func (e *Explorer) choose(n int, cons func(i int) *Term) int {
	if len(e.trace) < len(e.prefix) {
		d := e.prefix[len(e.trace)]
		// when replaying a bumped choice, skip infeasible alternatives
		if len(e.trace)+1 == len(e.prefix) && !d.forced {
			for d.choice < d.n {
				c := cons(d.choice)
				if e.S.CheckWith(c) != "unsat" {
					break
				}
				d.choice++
			}
			if d.choice >= d.n {
				// nothing left here: record as exhausted and abort this run
				d.choice = d.n - 1
				d.forced = true
				e.trace = append(e.trace, d)
				panic(pathAbort{"infeasible"})
			}
		}
		e.S.Assert(cons(d.choice))
		e.learn(cons(d.choice))
		e.trace = append(e.trace, d)
		e.shardStep(d)
		return d.choice
	}
	if len(e.trace) >= e.MaxDepth {
		panic(pathAbort{"limit: decisions per path"})
	}
	// new decision: find first feasible alternative
	first := -1
	feas := 0
	for i := 0; i < n; i++ {
		if e.S.CheckWith(cons(i)) != "unsat" {
			if first < 0 {
				first = i
			}
			feas++
			if feas > 1 {
				break
			}
		}
	}
	if first < 0 {
		panic(pathAbort{"infeasible"})
	}
	if feas > 1 {
		e.Forks++
	}
	d := decision{choice: first, n: n, forced: feas == 1}
	if d.forced {
		// forced: later alternatives are all infeasible; keep n so replay is stable
		d.n = first + 1
	}
	e.S.Assert(cons(first))
	e.learn(cons(first))
	e.trace = append(e.trace, d)
	e.shardStep(d)
	return first
}

// shardStep: after the ShardDepth-th unforced decision of a path, drop the path unless it belongs to
// this worker's shard.
func (e *Explorer) shardStep(d decision) {
	if e.Shards <= 1 || d.forced {
		return
	}
	e.nfCount++
	if e.nfCount > e.ShardDepth {
		return
	}
	e.shardID = (e.shardID*31 + d.choice + 1) % e.Shards
	if e.nfCount == e.ShardDepth && e.shardID != e.Shard {
		panic(pathAbort{"other-shard"})
	}
}

// branch decides a symbolic boolean.
// learn records var==const / var!=const facts from an asserted constraint.
func (e *Explorer) learn(c *Term) {
	switch c.Op {
	case "and":
		e.learn(c.Args[0])
		e.learn(c.Args[1])
	case "=":
		if v, k, ok := varConst(c); ok {
			e.pinEq[v] = k
		}
	case "not":
		if c.Args[0].Op == "=" {
			if v, k, ok := varConst(c.Args[0]); ok {
				if e.pinNe[v] == nil {
					e.pinNe[v] = map[uint64]bool{}
				}
				e.pinNe[v][k] = true
			}
		} else if c.Args[0].Op == "or" {
			e.learn(mkNot(c.Args[0].Args[0]))
			e.learn(mkNot(c.Args[0].Args[1]))
		}
	case "var":
		if c.W == 0 {
			e.pinEq[c.Name] = 1
		}
	}
	if c.Op == "not" && c.Args[0].Op == "var" && c.Args[0].W == 0 {
		e.pinEq[c.Args[0].Name] = 0
	}
}

func varConst(eq *Term) (string, uint64, bool) {
	a, b := eq.Args[0], eq.Args[1]
	if a.Op == "var" && b.isConst() {
		return a.Name, b.Val, true
	}
	if b.Op == "var" && a.isConst() {
		return b.Name, a.Val, true
	}
	return "", 0, false
}

// simp simplifies t under the pinned facts.
func (e *Explorer) simp(t *Term) *Term {
	switch t.Op {
	case "const":
		return t
	case "var":
		if v, ok := e.pinEq[t.Name]; ok {
			if t.W == 0 {
				return mkBool(v == 1)
			}
			return mkConst(t.W, v)
		}
		return t
	case "=":
		if v, k, ok := varConst(t); ok {
			if pv, ok := e.pinEq[v]; ok {
				return mkBool(pv == k)
			}
			if e.pinNe[v][k] {
				return mkBool(false)
			}
			return t
		}
	}
	if len(e.pinEq) == 0 && len(e.pinNe) == 0 {
		return t
	}
	args := make([]*Term, len(t.Args))
	changed := false
	for i, a := range t.Args {
		args[i] = e.simp(a)
		if args[i] != a {
			changed = true
		}
	}
	if !changed {
		return t
	}
	switch t.Op {
	case "not":
		return mkNot(args[0])
	case "and":
		return mkAnd(args[0], args[1])
	case "or":
		return mkOr(args[0], args[1])
	case "ite":
		return mkIte(args[0], args[1], args[2])
	case "=":
		return mkEq(args[0], args[1])
	case "extract":
		return mkExtract(t.Hi, t.Lo, args[0])
	case "zero_extend":
		return mkExtend(false, t.W, args[0])
	case "sign_extend":
		return mkExtend(true, t.W, args[0])
	case "bvult", "bvule", "bvugt", "bvuge", "bvslt", "bvsle", "bvsgt", "bvsge":
		return mkCmp(t.Op, args[0], args[1])
	}
	return mkBV(t.Op, args[0], args[1])
}

func (e *Explorer) branch(c *Term) bool {
	if c.isConst() {
		return c.Val == 1
	}
	if sc := e.simp(c); sc.isConst() {
		e.Pinned++
		return sc.Val == 1
	}
	i := e.choose(2, func(i int) *Term {
		if i == 0 {
			return c
		}
		return mkNot(c)
	})
	return i == 0
}

// concretizeRange splits a symbolic integer known to lie in [lo, hi] over its values.
func (e *Explorer) concretizeRange(t *Term, lo, hi int64) uint64 {
	if t.isConst() {
		return t.Val
	}
	if st := e.simp(t); st.isConst() {
		return st.Val
	}
	n := int(hi - lo + 1)
	if n > maxSplit {
		if os.Getenv("VERIF_TRACE_PANIC") != "" {
			fmt.Fprintf(os.Stderr, "SPLIT ABORT [%d,%d]\n%s", lo, hi, targetStack())
		}
		panic(pathAbort{"unsupported: symbolic integer needs a split over more than 300 values"})
	}
	if n <= 0 {
		panic(pathAbort{"infeasible"})
	}
	i := e.choose(n, func(i int) *Term {
		return mkEq(t, mkConst(t.W, uint64(lo+int64(i))))
	})
	return uint64(lo + int64(i))
}

// concretize picks a concrete value for a symbolic integer term in [0, limit).
func (e *Explorer) concretize(t *Term, limit int) uint64 {
	if t.isConst() {
		return t.Val
	}
	n := limit
	i := e.choose(n+1, func(i int) *Term {
		if i < n {
			return mkEq(t, mkConst(t.W, uint64(i)))
		}
		return mkCmp("bvuge", t, mkConst(t.W, uint64(n)))
	})
	if i == n {
		panic(pathAbort{"unsupported: symbolic integer needs concretization beyond limit"})
	}
	return uint64(i)
}

func (e *Explorer) newInput(tag string, w int) *Term {
	name := fmt.Sprintf("in%d_%s", e.inputSeq, sanitize(tag))
	e.inputSeq++
	e.inputs[name] = w
	return mkVar(name, w)
}

func sanitize(s string) string {
	var b strings.Builder
	for _, r := range s {
		if r >= 'a' && r <= 'z' || r >= 'A' && r <= 'Z' || r >= '0' && r <= '9' || r == '_' {
			b.WriteRune(r)
		} else {
			b.WriteByte('_')
		}
	}
	return b.String()
}

func (e *Explorer) assume(c *Term) {
	if c.isTrue() {
		return
	}
	if c.isFalse() || e.S.CheckWith(c) == "unsat" {
		panic(pathAbort{"infeasible"})
	}
	e.S.Assert(c)
	e.learn(c)
}

// knownTerm is the disjunction of the regions declared on this path that are listed as known.
func (e *Explorer) knownTerm() *Term {
	k := mkBool(false)
	for _, r := range e.regions {
		if e.KnownRegions[r.name] {
			k = mkOr(k, r.t)
		}
	}
	return k
}

func (e *Explorer) declareRegion(name string, t *Term) {
	for i := range e.regions {
		if e.regions[i].name == name {
			e.regions[i].t = mkOr(e.regions[i].t, t)
			return
		}
	}
	e.regions = append(e.regions, region{name, t})
}

func (e *Explorer) record(tag, known string) {
	m := e.S.Values(e.inputs)
	e.Violations = append(e.Violations, Violation{Tag: tag, Model: m, Known: known, Decisions: len(e.trace), Stack: lastStackIfPanic(tag)})
}

// unmodelledEnvTop: the innermost function of the panicking target stack if it belongs to the
// operating-system layer (os, syscall, internal/poll, ...), else "".
func unmodelledEnvTop() string {
	// frames are innermost first; the callee that non-standard-library code called directly decides
	prev := ""
	for _, line := range strings.Split(lastStack, "\n") {
		fn := strings.TrimSpace(line)
		if fn == "" {
			continue
		}
		if strings.Contains(fn, "github.com/") || strings.Contains(fn, "go.starlark.net/") || strings.Contains(fn, "golang.org/x/") {
			break
		}
		prev = fn
	}
	name := strings.TrimLeft(prev, "(*")
	for _, pfx := range []string{"os.", "os/exec.", "os/user.", "os/signal.", "syscall.", "internal/poll.", "internal/syscall/", "io/ioutil.", "net.", "time."} {
		if strings.HasPrefix(name, pfx) {
			return prev
		}
	}
	return ""
}

func lastStackIfPanic(tag string) string {
	if strings.HasPrefix(tag, "escaping-panic") {
		return lastStack
	}
	return ""
}

// check decides whether neg (the negation of a property) is satisfiable on this path: outside every
// known-finding region it is a violation; inside a listed region it is a known finding. Returns
// whether anything was found.
func (e *Explorer) check(neg *Term, tag string) bool {
	found := false
	known := e.knownTerm()
	e.S.Push()
	e.S.Assert(mkAnd(neg, mkNot(known)))
	r := e.S.Check()
	if r == "sat" {
		e.record(tag, "")
		found = true
	} else if r != "unsat" {
		e.Unsupported["solver "+r+" at assert "+tag]++
	}
	e.S.Pop()
	if !known.isFalse() {
		for _, rg := range e.regions {
			if !e.KnownRegions[rg.name] {
				continue
			}
			e.S.Push()
			e.S.Assert(mkAnd(neg, rg.t))
			r := e.S.Check()
			if r == "sat" {
				e.record(tag, rg.name)
				found = true
			} else if r != "unsat" {
				e.Unsupported["solver "+r+" at assert "+tag]++
			}
			e.S.Pop()
		}
	}
	return found
}

func (e *Explorer) assert(c *Term, tag string) {
	e.Asserts++
	if c.isTrue() {
		return
	}
	e.AssertQueries++
	if e.check(mkNot(c), tag) {
		e.PathsWithViolation++
		// continue on the path where the assertion holds if there is one; an assertion that fails for
		// every value on this path is recorded and execution goes on (later assertions of the same
		// path — possibly another property's — are still evaluated)
		if c.isFalse() || e.S.CheckWith(c) == "unsat" {
			return
		}
		e.S.Assert(c)
		e.learn(c)
	}
}

func (e *Explorer) note(s string) {
	if len(e.Notes) < 20000 {
		e.Notes = append(e.Notes, s)
	}
}

func (e *Explorer) reportEscape(tag string) {
	e.PathsWithViolation++
	if !e.check(mkBool(true), tag) {
		e.Unsupported["engine: escaping panic on an infeasible path: "+tag]++
	}
}

func (e *Explorer) Summary() string {
	var b strings.Builder
	fmt.Fprintf(&b, "paths=%d aborted=%d infeasible=%d maxDecisions=%d steps=%d asserts=%d assertQueries=%d\n",
		e.Paths, e.Aborted, e.Infeasible, e.MaxDecisions, e.Steps, e.Asserts, e.AssertQueries)
	fmt.Fprintf(&b, "pinned-branches=%d\n", e.Pinned)
	fmt.Fprintf(&b, "solver: queries=%d sat=%d unsat=%d unknown=%d time=%v wall=%v\n",
		e.S.Queries, e.S.Sat, e.S.Unsat, e.S.Unknown, e.S.Time.Round(time.Millisecond), time.Since(e.Start).Round(time.Millisecond))
	var keys []string
	for k := range e.Reached {
		keys = append(keys, k)
	}
	sort.Strings(keys)
	for _, k := range keys {
		fmt.Fprintf(&b, "reach %s: %d\n", k, e.Reached[k])
	}
	for k, n := range e.Unsupported {
		fmt.Fprintf(&b, "UNSUPPORTED/INCONCLUSIVE %s: %d\n", k, n)
	}
	seen := map[string]int{}
	for _, v := range e.Violations {
		seen[v.Tag]++
		if seen[v.Tag] <= 3 {
			fmt.Fprintf(&b, "VIOLATION %s known=%q model=%v\n", v.Tag, v.Known, v.Model)
		}
	}
	for k, n := range seen {
		fmt.Fprintf(&b, "violations[%s]=%d\n", k, n)
	}
	return b.String()
}
