// Copyright 2013 The Go Authors. All rights reserved.
// Use of this source code is governed by a BSD-style
// license that can be found in the LICENSE file.

// Package ssa/interp defines an interpreter for the SSA
// representation of Go programs.
//
// This interpreter is provided as an adjunct for testing the SSA
// construction algorithm.  Its purpose is to provide a minimal
// metacircular implementation of the dynamic semantics of each SSA
// instruction.  It is not, and will never be, a production-quality Go
// interpreter.
//
// The following is a partial list of Go features that are currently
// unsupported or incomplete in the interpreter.
//
// * Unsafe operations, including all uses of unsafe.Pointer, are
// impossible to support given the "boxed" value representation we
// have chosen.
//
// * The reflect package is only partially implemented.
//
// * The "testing" package is no longer supported because it
// depends on low-level details that change too often.
//
// * "sync/atomic" operations are not atomic due to the "boxed" value
// representation: it is not possible to read, modify and write an
// interface value atomically. As a consequence, Mutexes are currently
// broken.
//
// * recover is only partially implemented.  Also, the interpreter
// makes no attempt to distinguish target panics from interpreter
// crashes.
//
// * the sizes of the int, uint and uintptr types in the target
// program are assumed to be the same as those of the interpreter
// itself.
//
// * all values occupy space, even those of types defined by the spec
// to have zero size, e.g. struct{}.  This can cause asymptotic
// performance degradation.
//
// * os.Exit is implemented using panic, causing deferred functions to
// run.
package interp // import "golang.org/x/tools/go/ssa/interp"

import (
	"fmt"
	"go/token"
	"go/types"
	"log"
	"os"
	"reflect"
	"runtime"
	"slices"
	"strings"
	"sync/atomic"
	_ "unsafe"

	"golang.org/x/tools/go/ssa"
	
)

var callStack []*ssa.Function
var panicSeen bool

func targetStack() string {
	var b []byte
	for i := len(callStack) - 1; i >= 0 && i > len(callStack)-12; i-- {
		b = append(b, ("    " + callStack[i].String() + "\n")...)
	}
	return string(b)
}

type continuation int

const (
	kNext continuation = iota
	kReturn
	kJump
)

// Mode is a bitmask of options affecting the interpreter.
type Mode uint

const (
	DisableRecover Mode = 1 << iota // Disable recover() in target programs; show interpreter crash instead.
	EnableTracing                   // Print a trace of all instructions as they are interpreted.
)

type methodSet map[string]*ssa.Function

// State shared between all interpreted goroutines.
type interpreter struct {
	osArgs             []value                // the value of os.Args
	prog               *ssa.Program           // the SSA program
	globals            map[*ssa.Global]*value // addresses of global variables (immutable)
	mode               Mode                   // interpreter options
	reflectPackage     *ssa.Package           // the fake reflect package
	errorMethods       methodSet              // the method set of reflect.error, which implements the error interface.
	rtypeMethods       methodSet              // the method set of rtype, which implements the reflect.Type interface.
	runtimeErrorString types.Type             // the runtime.errorString type
	sizes              types.Sizes            // the effective type-sizing function
	goroutines         int32                  // atomically updated
	allowInit          map[string]bool        // packages whose init is run
	redirect           map[string]*ssa.Function // stubbed functions -> harness models
	funcsSeen          map[string]int         // functions entered (for evidence)
	depth              int
}

type deferred struct {
	fn    value
	args  []value
	instr *ssa.Defer
	tail  *deferred
}

type frame struct {
	i                *interpreter
	caller           *frame
	fn               *ssa.Function
	block, prevBlock *ssa.BasicBlock
	env              map[ssa.Value]value // dynamic values of SSA variables
	locals           []value
	defers           *deferred
	result           value
	panicking        bool
	panic            interface{}
	phitemps         []value // temporaries for parallel phi assignment
}

func (fr *frame) get(key ssa.Value) value {
	switch key := key.(type) {
	case nil:
		// Hack; simplifies handling of optional attributes
		// such as ssa.Slice.{Low,High}.
		return nil
	case *ssa.Function, *ssa.Builtin:
		return key
	case *ssa.Const:
		return constValue(key)
	case *ssa.Global:
		if r, ok := fr.i.globals[key]; ok {
			if key.Pkg != nil && !fr.i.allowInit[key.Pkg.Pkg.Path()] {
				guardGlobal(fr.i, key)
			}
			return r
		}
	}
	if r, ok := fr.env[key]; ok {
		return r
	}
	panic(fmt.Sprintf("get: no value for %T: %v", key, key.Name()))
}

// runDefer runs a deferred call d.
// It always returns normally, but may set or clear fr.panic.
func (fr *frame) runDefer(d *deferred) {
	if fr.i.mode&EnableTracing != 0 {
		fmt.Fprintf(os.Stderr, "%s: invoking deferred function call\n",
			fr.i.prog.Fset.Position(d.instr.Pos()))
	}
	var ok bool
	defer func() {
		if !ok {
			// Deferred call created a new state of panic.
			fr.panicking = true
			fr.panic = recover()
		}
	}()
	call(fr.i, fr, d.instr.Pos(), d.fn, d.args)
	ok = true
}

// runDefers executes fr's deferred function calls in LIFO order.
//
// On entry, fr.panicking indicates a state of panic; if
// true, fr.panic contains the panic value.
//
// On completion, if a deferred call started a panic, or if no
// deferred call recovered from a previous state of panic, then
// runDefers itself panics after the last deferred call has run.
//
// If there was no initial state of panic, or it was recovered from,
// runDefers returns normally.
func (fr *frame) runDefers() {
	for d := fr.defers; d != nil; d = d.tail {
		fr.runDefer(d)
	}
	fr.defers = nil
	if fr.panicking {
		panic(fr.panic) // new panic, or still panicking
	}
}

// lookupMethod returns the method set for type typ, which may be one
// of the interpreter's fake types.
func lookupMethod(i *interpreter, typ types.Type, meth *types.Func) *ssa.Function {
	switch typ {
	case rtypeType:
		return i.rtypeMethods[meth.Id()]
	case errorType:
		return i.errorMethods[meth.Id()]
	}
	return i.prog.LookupMethod(typ, meth.Pkg(), meth.Name())
}

// visitInstr interprets a single ssa.Instruction within the activation
// record frame.  It returns a continuation value indicating where to
// read the next instruction from.
func visitInstr(fr *frame, instr ssa.Instruction) continuation {
	switch instr := instr.(type) {
	case *ssa.DebugRef:
		// no-op

	case *ssa.UnOp:
		fr.env[instr] = unop(instr, fr.get(instr.X))

	case *ssa.BinOp:
		fr.env[instr] = binop(instr.Op, instr.X.Type(), fr.get(instr.X), fr.get(instr.Y))

	case *ssa.Call:
		fn, args := prepareCall(fr, &instr.Call)
		fr.env[instr] = call(fr.i, fr, instr.Pos(), fn, args)

	case *ssa.ChangeInterface:
		fr.env[instr] = fr.get(instr.X)

	case *ssa.ChangeType:
		fr.env[instr] = fr.get(instr.X) // (can't fail)

	case *ssa.Convert:
		fr.env[instr] = conv(instr.Type(), instr.X.Type(), fr.get(instr.X))

	case *ssa.SliceToArrayPointer:
		fr.env[instr] = sliceToArrayPointer(instr.Type(), instr.X.Type(), fr.get(instr.X))

	case *ssa.MakeInterface:
		fr.env[instr] = iface{t: instr.X.Type(), v: fr.get(instr.X)}

	case *ssa.Extract:
		fr.env[instr] = fr.get(instr.Tuple).(tuple)[instr.Index]

	case *ssa.Slice:
		fr.env[instr] = slice(fr.get(instr.X), fr.get(instr.Low), fr.get(instr.High), fr.get(instr.Max))

	case *ssa.Return:
		switch len(instr.Results) {
		case 0:
		case 1:
			fr.result = fr.get(instr.Results[0])
		default:
			var res []value
			for _, r := range instr.Results {
				res = append(res, fr.get(r))
			}
			fr.result = tuple(res)
		}
		fr.block = nil
		return kReturn

	case *ssa.RunDefers:
		fr.runDefers()

	case *ssa.Panic:
		panic(targetPanic{fr.get(instr.X)})

	case *ssa.Send:
		fr.get(instr.Chan).(chan value) <- fr.get(instr.X)

	case *ssa.Store:
		store(mustDeref(instr.Addr.Type()), derefCheck(fr.get(instr.Addr)), fr.get(instr.Val))

	case *ssa.If:
		succ := 1
		switch c := fr.get(instr.Cond).(type) {
		case bool:
			if c {
				succ = 0
			}
		case sym:
			if ex.branch(c.t) {
				succ = 0
			}
		}
		fr.prevBlock, fr.block = fr.block, fr.block.Succs[succ]
		return kJump

	case *ssa.Jump:
		fr.prevBlock, fr.block = fr.block, fr.block.Succs[0]
		return kJump

	case *ssa.Defer:
		fn, args := prepareCall(fr, &instr.Call)
		defers := &fr.defers
		if into := fr.get(instr.DeferStack); into != nil {
			defers = into.(**deferred)
		}
		*defers = &deferred{
			fn:    fn,
			args:  args,
			instr: instr,
			tail:  *defers,
		}

	case *ssa.Go:
		fn, _ := prepareCall(fr, &instr.Call)
		_ = atomic.AddInt32
		name := "?"
		switch f := fn.(type) {
		case *ssa.Function:
			name = f.String()
		case *closure:
			name = f.Fn.String()
		}
		hook(fr, "vOnGo", name) // the callee has its own obligation; it is not run here

	case *ssa.MakeChan:
		fr.env[instr] = make(chan value, asInt64(fr.get(instr.Size)))

	case *ssa.Alloc:
		var addr *value
		if instr.Heap {
			// new
			addr = new(value)
			fr.env[instr] = addr
		} else {
			// local
			addr = fr.env[instr].(*value)
		}
		*addr = zero(mustDeref(instr.Type()))

	case *ssa.MakeSlice:
		capN := concIntRange(fr.get(instr.Cap), 0, 1<<20, "makeslice: cap out of range")
		slice := make([]value, capN)
		tElt := instr.Type().Underlying().(*types.Slice).Elem()
		for i := range slice {
			slice[i] = zero(tElt)
		}
		fr.env[instr] = slice[:concIntRange(fr.get(instr.Len), 0, capN, "makeslice: len out of range")]

	case *ssa.MakeMap:
		var reserve int64
		if instr.Reserve != nil {
			reserve = asInt64(fr.get(instr.Reserve))
		}
		if !fitsInt(reserve, fr.i.sizes) {
			panic(fmt.Sprintf("ssa.MakeMap.Reserve value %d does not fit in int", reserve))
		}
		fr.env[instr] = makeMap(instr.Type().Underlying().(*types.Map).Key(), reserve)

	case *ssa.Range:
		fr.env[instr] = rangeIter(fr.get(instr.X), instr.X.Type())

	case *ssa.Next:
		fr.env[instr] = fr.get(instr.Iter).(iter).next()

	case *ssa.FieldAddr:
		fr.env[instr] = &(*derefCheck(fr.get(instr.X))).(structure)[instr.Field]

	case *ssa.Field:
		fr.env[instr] = fr.get(instr.X).(structure)[instr.Field]

	case *ssa.IndexAddr:
		x := fr.get(instr.X)
		idx := fr.get(instr.Index)
		switch x := x.(type) {
		case []value:
			fr.env[instr] = &x[symIndex(idx, len(x))]
		case *value: // *array
			a := (*derefCheck(x)).(array)
			fr.env[instr] = &a[symIndex(idx, len(a))]
		default:
			panic(fmt.Sprintf("unexpected x type in IndexAddr: %T", x))
		}

	case *ssa.Index:
		x := fr.get(instr.X)
		idx := fr.get(instr.Index)

		switch x := x.(type) {
		case array:
			fr.env[instr] = x[symIndex(idx, len(x))]
		case string:
			fr.env[instr] = x[symIndex(idx, len(x))]
		case symstr:
			fr.env[instr] = x[symIndex(idx, len(x))]
		default:
			panic(fmt.Sprintf("unexpected x type in Index: %T", x))
		}

	case *ssa.Lookup:
		fr.env[instr] = lookup(instr, fr.get(instr.X), fr.get(instr.Index))

	case *ssa.MapUpdate:
		m := fr.get(instr.Map)
		key := fr.get(instr.Key)
		v := fr.get(instr.Value)
		switch m := m.(type) {
		case map[value]value:
			if m == nil {
				tpanic("assignment to entry in nil map")
			}
			mapSetAny(m, key, v)
		case *hashmap:
			if m == nil {
				tpanic("assignment to entry in nil map")
			}
			m.insert(key.(hashable), v)
		default:
			panic(fmt.Sprintf("illegal map type: %T", m))
		}

	case *ssa.TypeAssert:
		fr.env[instr] = typeAssert(fr.i, instr, fr.get(instr.X).(iface))

	case *ssa.MakeClosure:
		var bindings []value
		for _, binding := range instr.Bindings {
			bindings = append(bindings, fr.get(binding))
		}
		fr.env[instr] = &closure{instr.Fn.(*ssa.Function), bindings}

	case *ssa.Phi:
		log.Fatal("unreachable") // phis are processed at block entry

	case *ssa.Select:
		var cases []reflect.SelectCase
		if !instr.Blocking {
			cases = append(cases, reflect.SelectCase{
				Dir: reflect.SelectDefault,
			})
		}
		for _, state := range instr.States {
			var dir reflect.SelectDir
			if state.Dir == types.RecvOnly {
				dir = reflect.SelectRecv
			} else {
				dir = reflect.SelectSend
			}
			var send reflect.Value
			if state.Send != nil {
				send = reflect.ValueOf(fr.get(state.Send))
			}
			cases = append(cases, reflect.SelectCase{
				Dir:  dir,
				Chan: reflect.ValueOf(fr.get(state.Chan)),
				Send: send,
			})
		}
		chosen, recv, recvOk := reflect.Select(cases)
		if !instr.Blocking {
			chosen-- // default case should have index -1.
		}
		r := tuple{chosen, recvOk}
		for i, st := range instr.States {
			if st.Dir == types.RecvOnly {
				var v value
				if i == chosen && recvOk {
					// No need to copy since send makes an unaliased copy.
					v = recv.Interface().(value)
				} else {
					v = zero(st.Chan.Type().Underlying().(*types.Chan).Elem())
				}
				r = append(r, v)
			}
		}
		fr.env[instr] = r

	default:
		panic(fmt.Sprintf("unexpected instruction: %T", instr))
	}

	// if val, ok := instr.(ssa.Value); ok {
	// 	fmt.Println(toString(fr.env[val])) // debugging
	// }

	return kNext
}

// prepareCall determines the function value and argument values for a
// function call in a Call, Go or Defer instruction, performing
// interface method lookup if needed.
func prepareCall(fr *frame, call *ssa.CallCommon) (fn value, args []value) {
	v := fr.get(call.Value)
	if call.Method == nil {
		// Function call.
		fn = v
	} else {
		// Interface method invocation.
		recv := v.(iface)
		if recv.t == nil {
			tpanic("invalid memory address or nil pointer dereference (method invoked on nil interface)")
		}
		if f := lookupMethod(fr.i, recv.t, call.Method); f == nil {
			// Unreachable in well-typed programs.
			panic(fmt.Sprintf("method set for dynamic type %v does not contain %s", recv.t, call.Method))
		} else {
			fn = f
		}
		args = append(args, recv.v)
	}
	for _, arg := range call.Args {
		args = append(args, fr.get(arg))
	}
	return
}

// call interprets a call to a function (function, builtin or closure)
// fn with arguments args, returning its result.
// callpos is the position of the callsite.
func call(i *interpreter, caller *frame, callpos token.Pos, fn value, args []value) value {
	switch fn := fn.(type) {
	case *ssa.Function:
		if fn == nil {
			tpanic("invalid memory address or nil pointer dereference (call of nil function)")
		}
		return callSSA(i, caller, callpos, fn, args, nil)
	case *closure:
		return callSSA(i, caller, callpos, fn.Fn, args, fn.Env)
	case *ssa.Builtin:
		return callBuiltin(caller, callpos, fn, args)
	}
	panic(fmt.Sprintf("cannot call %T", fn))
}

func loc(fset *token.FileSet, pos token.Pos) string {
	if pos == token.NoPos {
		return ""
	}
	return " at " + fset.Position(pos).String()
}

// callSSA interprets a call to function fn with arguments args,
// and lexical environment env, returning its result.
// callpos is the position of the callsite.
func callSSA(i *interpreter, caller *frame, callpos token.Pos, fn *ssa.Function, args []value, env []value) value {
	if i.mode&EnableTracing != 0 {
		fset := fn.Prog.Fset
		// TODO(adonovan): fix: loc() lies for external functions.
		fmt.Fprintf(os.Stderr, "Entering %s%s.\n", fn, loc(fset, fn.Pos()))
		suffix := ""
		if caller != nil {
			suffix = ", resuming " + caller.fn.String() + loc(fset, callpos)
		}
		defer fmt.Fprintf(os.Stderr, "Leaving %s%s.\n", fn, suffix)
	}
	fr := &frame{
		i:      i,
		caller: caller, // for panic/recover
		fn:     fn,
	}
	if fn.Parent() == nil {
		name := fn.String()
		if fn.Name() == "init" && fn.Pkg != nil && fn.Signature.Recv() == nil && !i.allowInit[fn.Pkg.Pkg.Path()] {
			return nil // dependency initialisers are not run
		}
		if fn.Blocks == nil && fn.Pkg != nil && isIntrinsic(fn.Name()) {
			return callIntrinsic(fr, fn, args)
		}
		i.funcsSeen[name]++
		if strings.Contains(name, "/internal/par.Work[") && strings.Contains(name, "]).Do[") && len(args) >= 2 {
			// par.Work.Do(n, f) runs f on every item with at most n at a time; its result does not
			// depend on n (its contract), and the engine is sequential: run it with n = 1
			args[1] = 1
			modelsHit["par.Work.Do with n=1"]++
		}
		if target, ok := i.redirect[name]; ok && (caller == nil || caller.fn != target) {
			return callSSA(i, caller, callpos, target, args, nil)
		}
		if ext := externals[name]; ext == nil {
			if g := genericModel(name); g != nil {
				externals[name] = g
			}
		}
		if ext := externals[name]; ext != nil {
			if i.mode&EnableTracing != 0 {
				fmt.Fprintln(os.Stderr, "\t(external)")
			}
			return ext(fr, args)
		}
		if fn.Blocks == nil {
			panic("no code for function: " + name)
		}
	}

	// generic function body?
	if fn.TypeParams().Len() > 0 && len(fn.TypeArgs()) == 0 {
		panic("interp requires ssa.BuilderMode to include InstantiateGenerics to execute generics")
	}

	callStack = append(callStack, fn)
	depth0 := len(callStack)
	defer func() { callStack = callStack[:depth0-1] }()
	if len(callStack) > maxCallDepth {
		panic(pathAbort{"limit: call depth"})
	}
	fr.env = make(map[ssa.Value]value)
	fr.block = fn.Blocks[0]
	fr.locals = make([]value, len(fn.Locals))
	for i, l := range fn.Locals {
		fr.locals[i] = zero(mustDeref(l.Type()))
		fr.env[l] = &fr.locals[i]
	}
	for i, p := range fn.Params {
		fr.env[p] = args[i]
	}
	for i, fv := range fn.FreeVars {
		fr.env[fv] = env[i]
	}
	for fr.block != nil {
		runFrame(fr)
	}
	// Destroy the locals to avoid accidental use after return.
	for i := range fn.Locals {
		fr.locals[i] = bad{}
	}
	return fr.result
}

// runFrame executes SSA instructions starting at fr.block and
// continuing until a return, a panic, or a recovered panic.
//
// After a panic, runFrame panics.
//
// After a normal return, fr.result contains the result of the call
// and fr.block is nil.
//
// A recovered panic in a function without named return parameters
// (NRPs) becomes a normal return of the zero value of the function's
// result type.
//
// After a recovered panic in a function with NRPs, fr.result is
// undefined and fr.block contains the block at which to resume
// control.
func runFrame(fr *frame) {
	defer func() {
		if fr.block == nil {
			return // normal return
		}
		if fr.i.mode&DisableRecover != 0 {
			return // let interpreter crash
		}
		fr.panicking = true
		fr.panic = recover()
		if !panicSeen {
			panicSeen = true
			lastStack = targetStack()
		}
		if pa, ok := fr.panic.(pathAbort); ok {
			panic(pa) // engine-level abort: bypass target defers/recover
		}
		if cp, ok := fr.panic.(crashPanic); ok {
			panic(cp) // modelled process crash: no deferred function of the target runs
		}
		switch p := fr.panic.(type) {
		case targetPanic:
		case runtime.Error:
			// the engine raises every Go run-time panic of the target explicitly (tpanic), so a
			// host run-time error is an engine defect: abort the path as inconclusive
			noteHostPanic(p.Error())
			panic(pathAbort{"engine: host panic: " + p.Error()})
		case string:
			noteHostPanic(p)
			panic(pathAbort{"engine: host panic: " + p})
		}
		if fr.i.mode&EnableTracing != 0 {
			fmt.Fprintf(os.Stderr, "Panicking: %T %v.\n", fr.panic, fr.panic)
		}
		fr.runDefers()
		fr.block = fr.fn.Recover
	}()

	for {
		if fr.i.mode&EnableTracing != 0 {
			fmt.Fprintf(os.Stderr, ".%s:\n", fr.block)
		}

		nonPhis := executePhis(fr)
		for _, instr := range nonPhis {
			if fr.i.mode&EnableTracing != 0 {
				if v, ok := instr.(ssa.Value); ok {
					fmt.Fprintln(os.Stderr, "\t", v.Name(), "=", instr)
				} else {
					fmt.Fprintln(os.Stderr, "\t", instr)
				}
			}
			if ex != nil {
				ex.Steps++
				ex.stepsThisPath++
				if ex.stepsThisPath > ex.StepLimit {
					panic(pathAbort{"limit: steps per path"})
				}
			}
			if visitInstr(fr, instr) == kReturn {
				return
			}
			// Inv: kNext (continue) or kJump (last instr)
		}
	}
}

// executePhis executes the phi-nodes at the start of the current
// block and returns the non-phi instructions.
func executePhis(fr *frame) []ssa.Instruction {
	firstNonPhi := -1
	for i, instr := range fr.block.Instrs {
		if _, ok := instr.(*ssa.Phi); !ok {
			firstNonPhi = i
			break
		}
	}
	// Inv: 0 <= firstNonPhi; every block contains a non-phi.

	nonPhis := fr.block.Instrs[firstNonPhi:]
	if firstNonPhi > 0 {
		phis := fr.block.Instrs[:firstNonPhi]
		// Execute parallel assignment of phis.
		//
		// See "the swap problem" in Briggs et al's "Practical Improvements
		// to the Construction and Destruction of SSA Form" for discussion.
		predIndex := slices.Index(fr.block.Preds, fr.prevBlock)
		fr.phitemps = fr.phitemps[:0]
		for _, phi := range phis {
			phi := phi.(*ssa.Phi)
			if fr.i.mode&EnableTracing != 0 {
				fmt.Fprintln(os.Stderr, "\t", phi.Name(), "=", phi)
			}
			fr.phitemps = append(fr.phitemps, fr.get(phi.Edges[predIndex]))
		}
		for i, phi := range phis {
			fr.env[phi.(*ssa.Phi)] = fr.phitemps[i]
		}
	}
	return nonPhis
}

// doRecover implements the recover() built-in.
func doRecover(caller *frame) value {
	// recover() must be exactly one level beneath the deferred
	// function (two levels beneath the panicking function) to
	// have any effect.  Thus we ignore both "defer recover()" and
	// "defer f() -> g() -> recover()".
	if caller.i.mode&DisableRecover == 0 &&
		caller != nil && !caller.panicking &&
		caller.caller != nil && caller.caller.panicking {
		caller.caller.panicking = false
		p := caller.caller.panic
		caller.caller.panic = nil

		// TODO(adonovan): support runtime.Goexit.
		switch p := p.(type) {
		case targetPanic:
			// The target program explicitly called panic().
			return p.v
		case runtime.Error:
			// The interpreter encountered a runtime error.
			return iface{caller.i.runtimeErrorString, p.Error()}
		case string:
			// The interpreter explicitly called panic().
			return iface{caller.i.runtimeErrorString, p}
		default:
			panic(fmt.Sprintf("unexpected panic type %T in target call to recover()", p))
		}
	}
	return iface{}
}

// Interpret interprets the Go program whose main package is mainpkg.
// mode specifies various interpreter options.  filename and args are
// the initial values of os.Args for the target program.  sizes is the
// effective type-sizing function for this program.
//
// Interpret returns the exit code of the program: 2 for panic (like
// gc does), or the argument to os.Exit for normal termination.
//
// The SSA program must include the "runtime" package.
//
// Type parameterized functions must have been built with
// InstantiateGenerics in the ssa.BuilderMode to be interpreted.
func Interpret(mainpkg *ssa.Package, mode Mode, sizes types.Sizes, filename string, args []string) (exitCode int) {
	i := &interpreter{
		prog:       mainpkg.Prog,
		globals:    make(map[*ssa.Global]*value),
		mode:       mode,
		sizes:      sizes,
		goroutines: 1,
	}
	runtimePkg := i.prog.ImportedPackage("runtime")
	if runtimePkg == nil {
		panic("ssa.Program doesn't include runtime package")
	}
	i.runtimeErrorString = runtimePkg.Type("errorString").Object().Type()

	initReflect(i)

	i.osArgs = append(i.osArgs, filename)
	for _, arg := range args {
		i.osArgs = append(i.osArgs, arg)
	}

	for _, pkg := range i.prog.AllPackages() {
		// Initialize global storage.
		for _, m := range pkg.Members {
			switch v := m.(type) {
			case *ssa.Global:
				cell := zero(mustDeref(v.Type()))
				i.globals[v] = &cell
			}
		}
	}

	// Top-level error handler.
	exitCode = 2
	defer func() {
		if exitCode != 2 || i.mode&DisableRecover != 0 {
			return
		}
		switch p := recover().(type) {
		case exitPanic:
			exitCode = int(p)
			return
		case targetPanic:
			fmt.Fprintln(os.Stderr, "panic:", toString(p.v))
		case runtime.Error:
			fmt.Fprintln(os.Stderr, "panic:", p.Error())
		case string:
			fmt.Fprintln(os.Stderr, "panic:", p)
		default:
			fmt.Fprintf(os.Stderr, "panic: unexpected type: %T: %v\n", p, p)
		}

		// TODO(adonovan): dump panicking interpreter goroutine?
		// buf := make([]byte, 0x10000)
		// runtime.Stack(buf, false)
		// fmt.Fprintln(os.Stderr, string(buf))
		// (Or dump panicking target goroutine?)
	}()

	// Run!
	call(i, nil, token.NoPos, mainpkg.Func("init"), nil)
	if mainFn := mainpkg.Func("main"); mainFn != nil {
		call(i, nil, token.NoPos, mainFn, nil)
		exitCode = 0
	} else {
		fmt.Fprintln(os.Stderr, "No main function.")
		exitCode = 1
	}
	return
}
