package interp

// Symbolic terms over bit-vectors and booleans, printed as SMT-LIB2.

import (
	"math"
	"fmt"
	"go/types"
	"strings"
)

// Term is a node in an expression DAG. W==0 means Bool; otherwise a bit-vector of width W.
type Term struct {
	Op   string // "const", "var", or an SMT-LIB operator name
	Args []*Term
	W    int
	Val  uint64 // for const (masked to W); for Bool const: 0/1
	Name string // for var
	Hi   int    // extract hi / extend amount
	Lo   int
}

func mask(w int) uint64 {
	if w >= 64 {
		return ^uint64(0)
	}
	return (uint64(1) << uint(w)) - 1
}

func mkConst(w int, v uint64) *Term { return &Term{Op: "const", W: w, Val: v & mask(w)} }
func mkBool(b bool) *Term {
	if b {
		return &Term{Op: "const", W: 0, Val: 1}
	}
	return &Term{Op: "const", W: 0, Val: 0}
}
func mkVar(name string, w int) *Term { return &Term{Op: "var", W: w, Name: name} }

func (t *Term) isConst() bool { return t.Op == "const" }
func (t *Term) isTrue() bool  { return t.Op == "const" && t.W == 0 && t.Val == 1 }
func (t *Term) isFalse() bool { return t.Op == "const" && t.W == 0 && t.Val == 0 }

func sext(v uint64, w int) int64 {
	if w >= 64 {
		return int64(v)
	}
	sh := uint(64 - w)
	return int64(v<<sh) >> sh
}

func same(a, b *Term) bool {
	if a == b {
		return true
	}
	if a.Op != b.Op || a.W != b.W || a.Val != b.Val || a.Name != b.Name || a.Hi != b.Hi || a.Lo != b.Lo || len(a.Args) != len(b.Args) {
		return false
	}
	for i := range a.Args {
		if !same(a.Args[i], b.Args[i]) {
			return false
		}
	}
	return true
}

func mkNot(a *Term) *Term {
	if a.isConst() {
		return mkBool(a.Val == 0)
	}
	if a.Op == "not" {
		return a.Args[0]
	}
	return &Term{Op: "not", Args: []*Term{a}}
}

func mkAnd(a, b *Term) *Term {
	if a.isFalse() || b.isFalse() {
		return mkBool(false)
	}
	if a.isTrue() {
		return b
	}
	if b.isTrue() {
		return a
	}
	return &Term{Op: "and", Args: []*Term{a, b}}
}

func mkOr(a, b *Term) *Term {
	if a.isTrue() || b.isTrue() {
		return mkBool(true)
	}
	if a.isFalse() {
		return b
	}
	if b.isFalse() {
		return a
	}
	return &Term{Op: "or", Args: []*Term{a, b}}
}

func mkIte(c, a, b *Term) *Term {
	if c.isTrue() {
		return a
	}
	if c.isFalse() {
		return b
	}
	if same(a, b) {
		return a
	}
	return &Term{Op: "ite", Args: []*Term{c, a, b}, W: a.W}
}

func mkEq(a, b *Term) *Term {
	if a.isConst() && b.isConst() {
		return mkBool(a.Val == b.Val)
	}
	if same(a, b) {
		return mkBool(true)
	}
	return &Term{Op: "=", Args: []*Term{a, b}}
}

// mkBV builds a binary bit-vector operation with constant folding.
func mkBV(op string, a, b *Term) *Term {
	w := a.W
	if a.isConst() && b.isConst() {
		x, y := a.Val, b.Val
		switch op {
		case "bvadd":
			return mkConst(w, x+y)
		case "bvsub":
			return mkConst(w, x-y)
		case "bvmul":
			return mkConst(w, x*y)
		case "bvand":
			return mkConst(w, x&y)
		case "bvor":
			return mkConst(w, x|y)
		case "bvxor":
			return mkConst(w, x^y)
		case "bvshl":
			if y >= uint64(w) {
				return mkConst(w, 0)
			}
			return mkConst(w, x<<y)
		case "bvlshr":
			if y >= uint64(w) {
				return mkConst(w, 0)
			}
			return mkConst(w, x>>y)
		case "bvashr":
			s := sext(x, w)
			if y >= uint64(w) {
				y = uint64(w - 1)
			}
			return mkConst(w, uint64(s>>y))
		case "bvudiv":
			if y != 0 {
				return mkConst(w, x/y)
			}
		case "bvurem":
			if y != 0 {
				return mkConst(w, x%y)
			}
		case "bvsdiv":
			if y != 0 {
				return mkConst(w, uint64(sext(x, w)/sext(y, w)))
			}
		case "bvsrem":
			if y != 0 {
				return mkConst(w, uint64(sext(x, w)%sext(y, w)))
			}
		}
	}
	// light identities
	switch op {
	case "bvor", "bvxor", "bvadd":
		if a.isConst() && a.Val == 0 {
			return b
		}
		if b.isConst() && b.Val == 0 {
			return a
		}
	case "bvshl", "bvlshr", "bvashr", "bvsub":
		if b.isConst() && b.Val == 0 {
			return a
		}
	case "bvand":
		if (a.isConst() && a.Val == 0) || (b.isConst() && b.Val == 0) {
			return mkConst(w, 0)
		}
	}
	return &Term{Op: op, Args: []*Term{a, b}, W: w}
}

// mkCmp builds a comparison (result Bool).
func mkCmp(op string, a, b *Term) *Term {
	if a.isConst() && b.isConst() {
		x, y := a.Val, b.Val
		sx, sy := sext(x, a.W), sext(y, a.W)
		switch op {
		case "bvult":
			return mkBool(x < y)
		case "bvule":
			return mkBool(x <= y)
		case "bvugt":
			return mkBool(x > y)
		case "bvuge":
			return mkBool(x >= y)
		case "bvslt":
			return mkBool(sx < sy)
		case "bvsle":
			return mkBool(sx <= sy)
		case "bvsgt":
			return mkBool(sx > sy)
		case "bvsge":
			return mkBool(sx >= sy)
		}
	}
	return &Term{Op: op, Args: []*Term{a, b}}
}

func mkExtract(hi, lo int, a *Term) *Term {
	w := hi - lo + 1
	if w == a.W && lo == 0 {
		return a
	}
	if a.isConst() {
		return mkConst(w, a.Val>>uint(lo))
	}
	// extract of zero/sign extend of something already narrow enough
	if (a.Op == "zero_extend" || a.Op == "sign_extend") && lo == 0 && w <= a.Args[0].W {
		return mkExtract(hi, lo, a.Args[0])
	}
	return &Term{Op: "extract", Args: []*Term{a}, W: w, Hi: hi, Lo: lo}
}

func mkExtend(signed bool, to int, a *Term) *Term {
	if to == a.W {
		return a
	}
	if to < a.W {
		return mkExtract(to-1, 0, a)
	}
	if a.isConst() {
		if signed {
			return mkConst(to, uint64(sext(a.Val, a.W)))
		}
		return mkConst(to, a.Val)
	}
	op := "zero_extend"
	if signed {
		op = "sign_extend"
	}
	return &Term{Op: op, Args: []*Term{a}, W: to, Hi: to - a.W}
}

// SMT printing with sharing via let-free naming: we print trees directly (terms are small).
func (t *Term) smt(b *strings.Builder) {
	switch t.Op {
	case "const":
		if t.W == 0 {
			if t.Val == 1 {
				b.WriteString("true")
			} else {
				b.WriteString("false")
			}
			return
		}
		fmt.Fprintf(b, "(_ bv%d %d)", t.Val, t.W)
	case "var":
		b.WriteString(t.Name)
	case "extract":
		fmt.Fprintf(b, "((_ extract %d %d) ", t.Hi, t.Lo)
		t.Args[0].smt(b)
		b.WriteByte(')')
	case "zero_extend", "sign_extend":
		fmt.Fprintf(b, "((_ %s %d) ", t.Op, t.Hi)
		t.Args[0].smt(b)
		b.WriteByte(')')
	default:
		b.WriteByte('(')
		b.WriteString(t.Op)
		for _, a := range t.Args {
			b.WriteByte(' ')
			a.smt(b)
		}
		b.WriteByte(')')
	}
}

func (t *Term) String() string {
	var b strings.Builder
	t.smt(&b)
	return b.String()
}

func (t *Term) vars(out map[string]int) {
	if t.Op == "var" {
		out[t.Name] = t.W
	}
	for _, a := range t.Args {
		a.vars(out)
	}
}

// eval evaluates t under a model (for replay/validation).
func (t *Term) eval(m map[string]uint64) uint64 {
	switch t.Op {
	case "const":
		return t.Val
	case "var":
		return m[t.Name] & mask(t.W)
	}
	var a []*Term
	for _, x := range t.Args {
		a = append(a, mkConst(x.W, x.eval(m)))
		if x.W == 0 {
			a[len(a)-1] = mkBool(x.eval(m) == 1)
		}
	}
	var r *Term
	switch t.Op {
	case "not":
		r = mkNot(a[0])
	case "and":
		r = mkAnd(a[0], a[1])
	case "or":
		r = mkOr(a[0], a[1])
	case "ite":
		r = mkIte(a[0], a[1], a[2])
	case "=":
		r = mkEq(a[0], a[1])
	case "extract":
		r = mkExtract(t.Hi, t.Lo, a[0])
	case "zero_extend":
		r = mkExtend(false, t.W, a[0])
	case "sign_extend":
		r = mkExtend(true, t.W, a[0])
	case "bvult", "bvule", "bvugt", "bvuge", "bvslt", "bvsle", "bvsgt", "bvsge":
		r = mkCmp(t.Op, a[0], a[1])
	default:
		r = mkBV(t.Op, a[0], a[1])
	}
	if !r.isConst() {
		panic("eval: not constant: " + t.String())
	}
	return r.Val
}

// --- symbolic scalar value ---

// sym is a symbolic scalar of basic kind k (an integer kind or Bool).
type sym struct {
	t *Term
	k types.BasicKind
}

func kindWidth(k types.BasicKind) (w int, signed bool) {
	switch k {
	case types.Bool, types.UntypedBool:
		return 0, false
	case types.Int8:
		return 8, true
	case types.Int16:
		return 16, true
	case types.Int32, types.UntypedRune:
		return 32, true
	case types.Int, types.Int64, types.UntypedInt:
		return 64, true
	case types.Uint8:
		return 8, false
	case types.Uint16:
		return 16, false
	case types.Uint32:
		return 32, false
	case types.Uint, types.Uint64, types.Uintptr:
		return 64, false
	case types.Float64, types.UntypedFloat:
		return 64, false // bit pattern; only moves, bit casts and ==/!= are supported
	}
	panic(fmt.Sprintf("kindWidth: unsupported kind %v", k))
}

func basicKind(t types.Type) types.BasicKind {
	if b, ok := t.Underlying().(*types.Basic); ok {
		return b.Kind()
	}
	return types.Invalid
}

// concrete value of kind k from raw bits
func concreteOfKind(k types.BasicKind, v uint64) value {
	switch k {
	case types.Bool, types.UntypedBool:
		return v != 0
	case types.Int, types.UntypedInt:
		return int(v)
	case types.Int8:
		return int8(v)
	case types.Int16:
		return int16(v)
	case types.Int32, types.UntypedRune:
		return int32(v)
	case types.Int64:
		return int64(v)
	case types.Uint:
		return uint(v)
	case types.Uint8:
		return uint8(v)
	case types.Uint16:
		return uint16(v)
	case types.Uint32:
		return uint32(v)
	case types.Uint64:
		return uint64(v)
	case types.Uintptr:
		return uintptr(v)
	}
	panic("concreteOfKind")
}

// mkSym wraps a term as a value, returning a concrete value if the term is constant.
func mkSym(t *Term, k types.BasicKind) value {
	if t.isConst() {
		return concreteOfKind(k, t.Val)
	}
	return sym{t, k}
}

// termOf converts a (concrete or symbolic) scalar value to a term, and reports its kind.
func termOf(v value) (*Term, types.BasicKind) {
	switch v := v.(type) {
	case sym:
		return v.t, v.k
	case bool:
		return mkBool(v), types.Bool
	case int:
		return mkConst(64, uint64(v)), types.Int
	case int8:
		return mkConst(8, uint64(v)), types.Int8
	case int16:
		return mkConst(16, uint64(v)), types.Int16
	case int32:
		return mkConst(32, uint64(v)), types.Int32
	case int64:
		return mkConst(64, uint64(v)), types.Int64
	case uint:
		return mkConst(64, uint64(v)), types.Uint
	case uint8:
		return mkConst(8, uint64(v)), types.Uint8
	case uint16:
		return mkConst(16, uint64(v)), types.Uint16
	case uint32:
		return mkConst(32, uint64(v)), types.Uint32
	case uint64:
		return mkConst(64, v), types.Uint64
	case uintptr:
		return mkConst(64, uint64(v)), types.Uintptr
	case float64:
		return mkConst(64, math.Float64bits(v)), types.Float64
	}
	panic(fmt.Sprintf("termOf: not a scalar: %T", v))
}

func isSym(v value) bool { _, ok := v.(sym); return ok }
