package interp

import (
	"go/types"
	"go/token"
	"strings"

	"golang.org/x/tools/go/ssa"
)

// Sequential model of sync primitives with rely/guarantee hooks supplied by the harness.

var heldLocks = map[*value]bool{}
var harnessPkg *ssa.Package

func hook(fr *frame, name string, args ...value) {
	if harnessPkg == nil {
		return
	}
	if f := harnessPkg.Func(name); f != nil {
		call(fr.i, fr, token.NoPos, f, args)
	}
}

func lockModel(fr *frame, m *value) {
	if heldLocks[m] {
		panic(targetPanic{iface{t: fr.i.runtimeErrorString, v: "VERIF: self-deadlock: Lock of a mutex already held by this thread"}})
	}
	heldLocks[m] = true
	hook(fr, "vOnAcquire", m)
}

func unlockModel(fr *frame, m *value) {
	if !heldLocks[m] {
		panic(targetPanic{iface{t: fr.i.runtimeErrorString, v: "sync: unlock of unlocked mutex"}})
	}
	hook(fr, "vOnRelease", m)
	delete(heldLocks, m)
}

func registerSyncModels() {
	externals["(*sync.Mutex).Lock"] = func(fr *frame, args []value) value { lockModel(fr, args[0].(*value)); return nil }
	externals["(*sync.Mutex).Unlock"] = func(fr *frame, args []value) value { unlockModel(fr, args[0].(*value)); return nil }
	externals["(*sync.Cond).Wait"] = func(fr *frame, args []value) value {
		c := args[0].(*value)
		// Cond struct: {noCopy, L Locker, notify, checker}; L is field 1 (an interface holding *Mutex)
		l := (*c).(structure)[1].(iface)
		m := l.v.(*value)
		unlockModel(fr, m)
		hook(fr, "vOnWait", c)
		lockModel(fr, m)
		return nil
	}
	externals["(*sync.Cond).Signal"] = func(fr *frame, args []value) value { hook(fr, "vOnSignal", args[0]); return nil }
	externals["(*sync.Cond).Broadcast"] = func(fr *frame, args []value) value { hook(fr, "vOnBroadcast", args[0]); return nil }
}

// ---- sync/atomic.Pointer[T] and sync.Map ----

type syncMapEntry struct{ k, v value }

var syncMaps = map[*value][]syncMapEntry{}

func atomicPtrCell(p value) *value {
	st := (*p.(*value)).(structure)
	return &st[len(st)-1] // field v unsafe.Pointer
}

func loadAtomicPtr(p value) value {
	c := atomicPtrCell(p)
	if pv, ok := (*c).(*value); ok {
		return pv
	}
	return (*value)(nil)
}

// genericModel resolves models for instantiated generic methods by pattern.
func genericModel(name string) externalFn {
	const pfx = "(*sync/atomic.Pointer["
	if len(name) > len(pfx) && name[:len(pfx)] == pfx {
		switch {
		case strings.Contains(name, "]).Load"):
			return func(fr *frame, args []value) value {
				hook(fr, "vOnAtomic", args[0])
				return loadAtomicPtr(args[0])
			}
		case strings.Contains(name, "]).Store"):
			return func(fr *frame, args []value) value {
				*atomicPtrCell(args[0]) = args[1]
				hook(fr, "vOnAtomicStore", args[0])
				return nil
			}
		case strings.Contains(name, "]).Swap"):
			return func(fr *frame, args []value) value {
				old := loadAtomicPtr(args[0])
				*atomicPtrCell(args[0]) = args[1]
				hook(fr, "vOnAtomicStore", args[0])
				return old
			}
		}
	}
	return nil
}

func hasSuffix(s, suf string) bool { return len(s) >= len(suf) && s[len(s)-len(suf):] == suf }

func registerSyncMapModels() {
	externals["(*sync.Map).Store"] = func(fr *frame, args []value) value {
		m := args[0].(*value)
		hook(fr, "vOnSyncMap", "Store", args[1])
		for i, e := range syncMaps[m] {
			if syncKeyEq(e.k, args[1]) {
				hook(fr, "vOnSyncMapOverwrite", args[1], e.v, args[2])
				syncMaps[m][i].v = args[2]
				return nil
			}
		}
		syncMaps[m] = append(syncMaps[m], syncMapEntry{args[1], args[2]})
		return nil
	}
	externals["(*sync.Map).LoadOrStore"] = func(fr *frame, args []value) value {
		m := args[0].(*value)
		hook(fr, "vOnSyncMap", "LoadOrStore", args[1])
		for _, e := range syncMaps[m] {
			if syncKeyEq(e.k, args[1]) {
				hook(fr, "vOnSyncMapResult", args[1], e.v)
				return tuple{e.v, true}
			}
		}
		syncMaps[m] = append(syncMaps[m], syncMapEntry{args[1], args[2]})
		hook(fr, "vOnSyncMapResult", args[1], args[2])
		return tuple{args[2], false}
	}
	externals["(*sync.Map).Load"] = func(fr *frame, args []value) value {
		m := args[0].(*value)
		hook(fr, "vOnSyncMap", "Load", args[1])
		for _, e := range syncMaps[m] {
			if syncKeyEq(e.k, args[1]) {
				return tuple{e.v, true}
			}
		}
		return tuple{iface{}, false}
	}
}

// RWMutex: mode "w" or "r" per mutex; hooks vOnAcquireRW(m, write bool) / vOnReleaseRW(m, write bool)
var rwHeld = map[*value]string{}

func init() {
	lateModels["(*sync.RWMutex).Lock"] = func(fr *frame, args []value) value {
		m := args[0].(*value)
		if rwHeld[m] != "" {
			panic(targetPanic{iface{t: fr.i.runtimeErrorString, v: "VERIF: self-deadlock: RWMutex already held by this thread"}})
		}
		rwHeld[m] = "w"
		hook(fr, "vOnAcquireRW", m, true)
		return nil
	}
	lateModels["(*sync.RWMutex).Unlock"] = func(fr *frame, args []value) value {
		m := args[0].(*value)
		if rwHeld[m] != "w" {
			panic(targetPanic{iface{t: fr.i.runtimeErrorString, v: "sync: Unlock of unlocked RWMutex"}})
		}
		hook(fr, "vOnReleaseRW", m, true)
		delete(rwHeld, m)
		return nil
	}
	lateModels["(*sync.RWMutex).RLock"] = func(fr *frame, args []value) value {
		m := args[0].(*value)
		if rwHeld[m] == "w" {
			panic(targetPanic{iface{t: fr.i.runtimeErrorString, v: "VERIF: self-deadlock: RLock while holding the write lock"}})
		}
		rwHeld[m] = "r"
		hook(fr, "vOnAcquireRW", m, false)
		return nil
	}
	lateModels["(*sync.RWMutex).RUnlock"] = func(fr *frame, args []value) value {
		m := args[0].(*value)
		if rwHeld[m] != "r" {
			panic(targetPanic{iface{t: fr.i.runtimeErrorString, v: "sync: RUnlock of unlocked RWMutex"}})
		}
		hook(fr, "vOnReleaseRW", m, false)
		delete(rwHeld, m)
		return nil
	}
}

func init() {
	// the parallelism limit is whatever the machine has: any value 1..64
	lateModels["runtime.NumCPU"] = func(fr *frame, args []value) value {
		t := ex.newInput("numcpu", 64)
		ex.assume(mkAnd(mkCmp("bvuge", t, mkConst(64, 1)), mkCmp("bvule", t, mkConst(64, 64))))
		return mkSym(t, types.Int)
	}
}

// HeldLocks: number of mutexes the analysed thread holds (intrinsic vHeld).
func heldCount() int { return len(heldLocks) + len(rwHeld) }

func init() {
	// math/rand.Intn(n): an arbitrary value in [0, n). It is an environment decision when the
	// case sets the parameter rand_choice=1 (every pick is explored), else the first alternative.
	lateModels["math/rand.Intn"] = func(fr *frame, args []value) value {
		modelsHit["math/rand.Intn"]++
		n := int(asInt64(args[0]))
		if n <= 1 || ex.Params["rand_choice"] != 1 {
			return 0
		}
		t := ex.newInput("rand", 8)
		ex.assume(mkCmp("bvult", t, mkConst(8, uint64(n))))
		return int(ex.concretizeRange(t, 0, int64(n-1)))
	}
}

// syncKeyEq compares two sync.Map keys; string keys with symbolic bytes are compared with a decision.
func syncKeyEq(a, b value) bool {
	ai, ok1 := a.(iface)
	bi, ok2 := b.(iface)
	if ok1 && ok2 {
		if ai.t == nil || bi.t == nil {
			return ai.t == nil && bi.t == nil
		}
		if !types.Identical(ai.t, bi.t) {
			return false
		}
		if isStrVal(ai.v) && isStrVal(bi.v) {
			return keyEqDecide(ai.v, bi.v)
		}
		if containsSym(ai.v) || containsSym(bi.v) {
			switch r := equalsV(ai.t, ai.v, bi.v).(type) {
			case bool:
				return r
			case sym:
				return ex.branch(r.t)
			}
		}
	}
	return equals(nil, a, b)
}
