package interp

import "go/types"

func mustDeref(t types.Type) types.Type {
	if p, ok := t.Underlying().(*types.Pointer); ok {
		return p.Elem()
	}
	panic("mustDeref: not a pointer: " + t.String())
}
