package interp

import (
	"fmt"
	"go/token"
	"go/types"
	"strings"

	"golang.org/x/tools/go/ssa"
)

// Model of fmt.Sprintf / fmt.Errorf / fmt.Sprint: concrete format string; %v %s %d %q %x %c %t %T %w on
// concrete values are formatted as the real package does (errors and Stringers through their
// interpreted methods); strings with symbolic bytes are spliced in for %v/%s; any other symbolic
// operand renders as the placeholder "<sym>" (such text is only ever an error message).

func callMethod(fr *frame, itf iface, name string) (value, bool) {
	if itf.t == nil {
		return nil, false
	}
	ms := fr.i.prog.MethodSets.MethodSet(itf.t)
	for i := 0; i < ms.Len(); i++ {
		sel := ms.At(i)
		if sel.Obj().Name() != name {
			continue
		}
		sig := sel.Type().(*types.Signature)
		if sig.Params().Len() != 0 || sig.Results().Len() != 1 {
			return nil, false
		}
		if b, ok := sig.Results().At(0).Type().Underlying().(*types.Basic); !ok || b.Kind() != types.String {
			return nil, false
		}
		fn := fr.i.prog.MethodValue(sel)
		if fn == nil {
			return nil, false
		}
		return call(fr.i, fr, token.NoPos, fn, []value{itf.v}), true
	}
	return nil, false
}

// fmtOperand renders one operand for verb (without flags) into a string or symstr.
func fmtOperand(fr *frame, verb byte, spec string, a value) value {
	itf, isIface := a.(iface)
	if isIface {
		if itf.t == nil {
			if verb == 'v' || verb == 's' {
				return "<nil>"
			}
			return "%!" + string(verb) + "(<nil>)"
		}
		if verb == 'v' || verb == 's' || verb == 'q' || verb == 'w' {
			if s, ok := callMethod(fr, itf, "Error"); ok {
				return fmtOperand(fr, map[bool]byte{true: 'q', false: 's'}[verb == 'q'], spec, s)
			}
			if s, ok := callMethod(fr, itf, "String"); ok {
				return fmtOperand(fr, map[bool]byte{true: 'q', false: 's'}[verb == 'q'], spec, s)
			}
		}
		if verb == 'T' {
			return itf.t.String()
		}
		a = itf.v
	}
	switch x := a.(type) {
	case symstr:
		if verb == 'v' || verb == 's' {
			return x
		}
		return "<sym>"
	case sym:
		return "<sym>"
	case string:
		return fmt.Sprintf(spec, x)
	case bool, int, int8, int16, int32, int64, uint, uint8, uint16, uint32, uint64, uintptr, float32, float64:
		return fmt.Sprintf(spec, x)
	case []value:
		// a slice: of bytes for %s/%x, otherwise element-wise
		if verb == 's' || verb == 'x' || verb == 'q' {
			bs := make([]byte, 0, len(x))
			for _, e := range x {
				b, ok := e.(uint8)
				if !ok {
					return "<sym>"
				}
				bs = append(bs, b)
			}
			return fmt.Sprintf(spec, bs)
		}
		var parts []string
		for _, e := range x {
			r := fmtOperand(fr, verb, spec, e)
			s, ok := r.(string)
			if !ok {
				s = "<sym>"
			}
			parts = append(parts, s)
		}
		return "[" + strings.Join(parts, " ") + "]"
	case *value:
		if x == nil {
			return "<nil>"
		}
		return "0xc000000000"
	}
	return toString(a)
}

func fmtRender(fr *frame, formatV value, args []value) (value, iface) {
	var out symstr
	var wrapped iface
	argi := 0
	emit := func(v value) { out = append(out, toSymstr(v)...) }
	fs := toSymstr(formatV)
	// isByte decides whether format byte k is c (a decision when the byte is symbolic)
	isByte := func(k int, c byte) bool {
		switch b := fs[k].(type) {
		case uint8:
			return b == c
		case sym:
			return ex.branch(mkEq(b.t, mkConst(8, uint64(c))))
		}
		return false
	}
	for i := 0; i < len(fs); i++ {
		if !isByte(i, '%') {
			out = append(out, fs[i])
			continue
		}
		j := i + 1
		for j < len(fs) {
			cb, conc := fs[j].(uint8)
			if !conc || strings.IndexByte("+-# 0123456789.", cb) < 0 {
				break
			}
			j++
		}
		if j >= len(fs) {
			emit("%!(NOVERB)")
			break
		}
		var verb byte
		if cb, conc := fs[j].(uint8); conc {
			verb = cb
		} else if isByte(j, '%') {
			verb = '%'
		} else if isByte(j, 'v') {
			verb = 'v'
		} else if isByte(j, 's') {
			verb = 's'
		} else {
			verb = '?' // some other (symbolic) verb: rendered as fmt's bad-verb form
		}
		spec := "%"
		for k := i + 1; k < j; k++ {
			spec += string([]byte{fs[k].(uint8)})
		}
		spec += string([]byte{verb})
		i = j
		if verb == '%' {
			out = append(out, uint8('%'))
			continue
		}
		if argi >= len(args) {
			emit("%!" + string([]byte{verb}) + "(MISSING)")
			continue
		}
		a := args[argi]
		argi++
		if verb == '?' {
			emit("%!?(BADVERB)")
			continue
		}
		if verb == 'w' {
			if itf, ok := a.(iface); ok {
				wrapped = itf
			}
			spec = spec[:len(spec)-1] + "v"
		}
		emit(fmtOperand(fr, verb, spec, a))
	}
	if argi < len(args) {
		emit("%!(EXTRA)")
	}
	return normStr(out), wrapped
}

func variadic(args []value, at int) []value {
	if len(args) > at {
		if rest, ok := args[at].([]value); ok {
			return rest
		}
	}
	return nil
}

func registerFmtModels(i *interpreter) {
	errorsNew := i.prog.ImportedPackage("errors").Func("New")
	var wrapT *types.Named
	if fp := i.prog.ImportedPackage("fmt"); fp != nil {
		if t, ok := fp.Members["wrapError"].(*ssa.Type); ok {
			wrapT, _ = t.Type().(*types.Named)
		}
	}
	externals["fmt.Errorf"] = func(fr *frame, args []value) value {
		modelsHit["fmt.Errorf"]++
		msg, wrapped := fmtRender(fr, args[0], variadic(args, 1))
		if wrapped.t != nil && wrapT != nil {
			// &fmt.wrapError{msg, err}: Error() and Unwrap() are then interpreted from fmt's SSA
			var cell value = structure{msg, wrapped}
			return iface{t: types.NewPointer(wrapT), v: &cell}
		}
		return call(i, fr, token.NoPos, errorsNew, []value{msg})
	}
	externals["fmt.Sprintf"] = func(fr *frame, args []value) value {
		modelsHit["fmt.Sprintf"]++
		s, _ := fmtRender(fr, args[0], variadic(args, 1))
		return s
	}
	externals["fmt.Sprint"] = func(fr *frame, args []value) value {
		modelsHit["fmt.Sprint"]++
		var out symstr
		for _, a := range variadic(args, 0) {
			out = append(out, toSymstr(fmtOperand(fr, 'v', "%v", a))...)
		}
		return normStr(out)
	}
}

// sort.Slice / sort.SliceStable use reflection to swap; modelled by a stable insertion sort that
// calls the interpreted less function (a symbolic answer is a decision).
func init() {
	sortModel := func(fr *frame, args []value) value {
		modelsHit["sort.Slice"]++
		itf, ok := args[0].(iface)
		if !ok {
			panic(pathAbort{"unsupported: sort.Slice on a non-interface argument"})
		}
		s, ok := itf.v.([]value)
		if !ok {
			panic(pathAbort{"unsupported: sort.Slice on a non-slice"})
		}
		less := func(i, j int) bool {
			switch r := call(fr.i, fr, token.NoPos, args[1], []value{i, j}).(type) {
			case bool:
				return r
			case sym:
				return ex.branch(r.t)
			}
			return false
		}
		for i := 1; i < len(s); i++ {
			for j := i; j > 0 && less(j, j-1); j-- {
				s[j], s[j-1] = s[j-1], s[j]
			}
		}
		return nil
	}
	lateModels["sort.Slice"] = sortModel
	lateModels["sort.SliceStable"] = sortModel
}
