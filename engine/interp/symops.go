package interp

// Symbolic extensions of the interpreter's operators.

import (
	"fmt"
	"os"
	"go/token"
	"go/types"
)

// symstr is a string (or the content of one) with possibly-symbolic bytes and concrete length.
type symstr []value // each element: uint8 or sym{k: Uint8}

func strLen(x value) int {
	switch x := x.(type) {
	case string:
		return len(x)
	case symstr:
		return len(x)
	}
	panic(fmt.Sprintf("strLen: %T", x))
}

func strByte(x value, i int) value {
	switch x := x.(type) {
	case string:
		return x[i]
	case symstr:
		return x[i]
	}
	panic(fmt.Sprintf("strByte: %T", x))
}

// normStr returns a plain string if all bytes are concrete.
func normStr(s symstr) value {
	buf := make([]byte, len(s))
	for i, b := range s {
		c, ok := b.(uint8)
		if !ok {
			return s
		}
		buf[i] = c
	}
	return string(buf)
}

func toSymstr(x value) symstr {
	switch x := x.(type) {
	case string:
		r := make(symstr, len(x))
		for i := 0; i < len(x); i++ {
			r[i] = x[i]
		}
		return r
	case symstr:
		return x
	}
	panic(fmt.Sprintf("toSymstr: %T", x))
}

func isStrVal(x value) bool {
	switch x.(type) {
	case string, symstr:
		return true
	}
	return false
}

// strEq returns a value (bool or sym Bool) for x == y on strings.
func strEq(x, y value) value {
	if strLen(x) != strLen(y) {
		return false
	}
	c := mkBool(true)
	for i := 0; i < strLen(x); i++ {
		a, _ := termOf(strByte(x, i))
		b, _ := termOf(strByte(y, i))
		c = mkAnd(c, mkEq(a, b))
	}
	return mkSym(c, types.Bool)
}

// strLess returns a term for x < y (lexicographic, bytewise).
func strLess(x, y value, orEqual bool) *Term {
	n, m := strLen(x), strLen(y)
	// build from the end
	var res *Term
	if orEqual {
		res = mkBool(n <= m)
	} else {
		res = mkBool(n < m)
	}
	k := n
	if m < k {
		k = m
	}
	// at position k (common prefix exhausted): result depends on lengths
	for i := k - 1; i >= 0; i-- {
		a, _ := termOf(strByte(x, i))
		b, _ := termOf(strByte(y, i))
		res = mkIte(mkCmp("bvult", a, b), mkBool(true), mkIte(mkEq(a, b), res, mkBool(false)))
	}
	return res
}

func anySym(vs ...value) bool {
	for _, v := range vs {
		switch v.(type) {
		case sym, symstr:
			return true
		}
	}
	return false
}

var cmpOps = map[token.Token][2]string{
	token.LSS: {"bvult", "bvslt"},
	token.LEQ: {"bvule", "bvsle"},
	token.GTR: {"bvugt", "bvsgt"},
	token.GEQ: {"bvuge", "bvsge"},
}

// symBinop handles binary operators when an operand is symbolic (sym or symstr).
func symBinop(op token.Token, t types.Type, x, y value) value {
	if isStrVal(x) || isStrVal(y) {
		switch op {
		case token.ADD:
			return normStr(append(append(symstr{}, toSymstr(x)...), toSymstr(y)...))
		case token.EQL:
			return strEq(x, y)
		case token.NEQ:
			return symNot(strEq(x, y))
		case token.LSS:
			return mkSym(strLess(x, y, false), types.Bool)
		case token.LEQ:
			return mkSym(strLess(x, y, true), types.Bool)
		case token.GTR:
			return mkSym(strLess(y, x, false), types.Bool)
		case token.GEQ:
			return mkSym(strLess(y, x, true), types.Bool)
		}
		panic(pathAbort{fmt.Sprintf("unsupported: string op %s", op)})
	}
	a, ka := termOf(x)
	// shifts: the count may have a different type
	if op == token.SHL || op == token.SHR {
		b, kb := termOf(y)
		w, signed := kindWidth(ka)
		_, bsigned := kindWidth(kb)
		if bsigned {
			// negative shift count panics in Go
			neg := mkCmp("bvslt", b, mkConst(b.W, 0))
			if ex.branch(neg) {
				panic(targetPanic{runtimeErr("negative shift amount")})
			}
		}
		// bring count to width w, saturating
		var cnt *Term
		if b.W > w {
			big := mkCmp("bvuge", b, mkConst(b.W, uint64(w)))
			cnt = mkIte(big, mkConst(w, uint64(w)), mkExtract(w-1, 0, b))
		} else {
			cnt = mkExtend(false, w, b)
		}
		switch {
		case op == token.SHL:
			return mkSym(mkBV("bvshl", a, cnt), ka)
		case signed:
			return mkSym(mkBV("bvashr", a, cnt), ka)
		default:
			return mkSym(mkBV("bvlshr", a, cnt), ka)
		}
	}
	b, _ := termOf(y)
	w, signed := kindWidth(ka)
	if ka == types.Float64 || ka == types.UntypedFloat {
		// IEEE equality on bit patterns: unequal if either is NaN; +0 == -0
		isNaN := func(t *Term) *Term {
			exp := mkExtract(62, 52, t)
			man := mkExtract(51, 0, t)
			return mkAnd(mkEq(exp, mkConst(11, 0x7ff)), mkNot(mkEq(man, mkConst(52, 0))))
		}
		isZero := func(t *Term) *Term { return mkEq(mkExtract(62, 0, t), mkConst(63, 0)) }
		eq := mkAnd(mkAnd(mkNot(isNaN(a)), mkNot(isNaN(b))), mkOr(mkEq(a, b), mkAnd(isZero(a), isZero(b))))
		switch op {
		case token.EQL:
			return mkSym(eq, types.Bool)
		case token.NEQ:
			return mkSym(mkNot(eq), types.Bool)
		}
		panic(pathAbort{fmt.Sprintf("unsupported: arithmetic on a symbolic float (%s)", op)})
	}
	if w == 0 { // bool
		switch op {
		case token.EQL:
			return mkSym(mkEq(a, b), types.Bool)
		case token.NEQ:
			return mkSym(mkNot(mkEq(a, b)), types.Bool)
		}
		panic(pathAbort{fmt.Sprintf("unsupported: bool op %s", op)})
	}
	switch op {
	case token.ADD:
		return mkSym(mkBV("bvadd", a, b), ka)
	case token.SUB:
		return mkSym(mkBV("bvsub", a, b), ka)
	case token.MUL:
		return mkSym(mkBV("bvmul", a, b), ka)
	case token.AND:
		return mkSym(mkBV("bvand", a, b), ka)
	case token.OR:
		return mkSym(mkBV("bvor", a, b), ka)
	case token.XOR:
		return mkSym(mkBV("bvxor", a, b), ka)
	case token.AND_NOT:
		return mkSym(mkBV("bvand", a, mkBV("bvxor", b, mkConst(w, ^uint64(0)))), ka)
	case token.QUO, token.REM:
		if ex.branch(mkEq(b, mkConst(w, 0))) {
			panic(targetPanic{runtimeErr("integer divide by zero")})
		}
		name := map[bool]map[token.Token]string{
			true:  {token.QUO: "bvsdiv", token.REM: "bvsrem"},
			false: {token.QUO: "bvudiv", token.REM: "bvurem"},
		}[signed][op]
		return mkSym(mkBV(name, a, b), ka)
	case token.EQL:
		return mkSym(mkEq(a, b), types.Bool)
	case token.NEQ:
		return mkSym(mkNot(mkEq(a, b)), types.Bool)
	case token.LSS, token.LEQ, token.GTR, token.GEQ:
		names := cmpOps[op]
		n := names[0]
		if signed {
			n = names[1]
		}
		return mkSym(mkCmp(n, a, b), types.Bool)
	}
	panic(pathAbort{fmt.Sprintf("unsupported: symbolic binop %s", op)})
}

func symNot(v value) value {
	switch v := v.(type) {
	case bool:
		return !v
	case sym:
		return mkSym(mkNot(v.t), types.Bool)
	}
	panic("symNot")
}

func symAnd(x, y value) value {
	a, _ := termOf(x)
	b, _ := termOf(y)
	return mkSym(mkAnd(a, b), types.Bool)
}

func symUnop(op token.Token, x sym) value {
	w, _ := kindWidth(x.k)
	switch op {
	case token.NOT:
		return mkSym(mkNot(x.t), types.Bool)
	case token.SUB:
		return mkSym(mkBV("bvsub", mkConst(w, 0), x.t), x.k)
	case token.XOR:
		return mkSym(mkBV("bvxor", x.t, mkConst(w, ^uint64(0))), x.k)
	}
	panic(pathAbort{fmt.Sprintf("unsupported: symbolic unop %s", op)})
}

// symConv converts a symbolic scalar to basic type dst.
func symConv(dst types.Type, x sym) value {
	kd := basicKind(dst)
	if x.k == types.Float64 {
		if kd == types.Float64 {
			return x
		}
		panic(pathAbort{"unsupported: conversion of a symbolic float"})
	}
	if kd == types.String {
		panic(pathAbort{"unsupported: string(symbolic integer)"})
	}
	if kd == types.Float32 || kd == types.Float64 {
		panic(pathAbort{"unsupported: float(symbolic integer)"})
	}
	wd, _ := kindWidth(kd)
	_, ssigned := kindWidth(x.k)
	if wd == 0 {
		return x
	}
	return mkSym(mkExtend(ssigned, wd, x.t), kd)
}

// equalsV is like equals but may return a symbolic boolean.
func equalsV(t types.Type, x, y value) value {
	if !containsSym(x) && !containsSym(y) {
		return equals(t, x, y)
	}
	switch x := x.(type) {
	case sym, bool, int, int8, int16, int32, int64, uint, uint8, uint16, uint32, uint64, uintptr:
		return symBinop(token.EQL, t, x, y)
	case string, symstr:
		return strEq(x, y)
	case structure:
		ys := y.(structure)
		st := t.Underlying().(*types.Struct)
		var res value = true
		for i := range x {
			if st.Field(i).Name() == "_" {
				continue
			}
			res = symAnd(res, equalsV(st.Field(i).Type(), x[i], ys[i]))
		}
		return res
	case array:
		ya := y.(array)
		et := t.Underlying().(*types.Array).Elem()
		var res value = true
		for i := range x {
			res = symAnd(res, equalsV(et, x[i], ya[i]))
		}
		return res
	case intModel:
		ym := y.(intModel)
		if x.big.(*value) != nil || ym.big.(*value) != nil {
			return x.big.(*value) == ym.big.(*value)
		}
		return symBinop(token.EQL, types.Typ[types.Int64], x.small, ym.small)
	case iface:
		yi := y.(iface)
		if x.t == nil || yi.t == nil {
			return x.t == nil && yi.t == nil
		}
		if !types.Identical(x.t, yi.t) {
			return false
		}
		return equalsV(x.t, x.v, yi.v)
	}
	return equals(t, x, y)
}

func containsSym(v value) bool {
	switch v := v.(type) {
	case sym, symstr:
		return true
	case intModel:
		return containsSym(v.small)
	case structure:
		for _, f := range v {
			if containsSym(f) {
				return true
			}
		}
	case array:
		for _, f := range v {
			if containsSym(f) {
				return true
			}
		}
	case iface:
		return containsSym(v.v)
	case tuple:
		for _, f := range v {
			if containsSym(f) {
				return true
			}
		}
	}
	return false
}

// concInt returns a concrete int64 for an integer value, concretizing symbolic ones (forking).
func concInt(x value) int64 {
	if s, ok := x.(sym); ok {
		v := ex.concretize(s.t, 16)
		w, signed := kindWidth(s.k)
		if signed {
			return sext(v, w)
		}
		return int64(v)
	}
	return asInt64(x)
}

// runtimeErr builds the interpreter's representation of a runtime.Error value.
func runtimeErr(msg string) value {
	return iface{t: theInterp.runtimeErrorString, v: "runtime error: " + msg}
}

var theInterp *interpreter

// symIndex returns a concrete index; for a symbolic index it first decides the bounds check.
func symIndex(idx value, n int) int64 {
	s, ok := idx.(sym)
	if !ok {
		v := asInt64(idx)
		if v < 0 || v >= int64(n) {
			tpanic(fmt.Sprintf("index out of range [%d] with length %d", v, n))
		}
		return v
	}
	w, signed := kindWidth(s.k)
	var inb *Term
	if signed {
		inb = mkAnd(mkCmp("bvsge", s.t, mkConst(w, 0)), mkCmp("bvslt", s.t, mkConst(w, uint64(n))))
	} else {
		inb = mkCmp("bvult", s.t, mkConst(w, uint64(n)))
	}
	if !ex.branch(inb) {
		panic(targetPanic{runtimeErr("index out of range")})
	}
	return int64(ex.concretizeRange(s.t, 0, int64(n-1)))
}

// tpanic raises a Go run-time panic in the target program.
func tpanic(msg string) {
	if os.Getenv("VERIF_TRACE_PANIC") != "" {
		fmt.Fprintf(os.Stderr, "TARGET PANIC %s\n%s", msg, targetStack())
	}
	panic(targetPanic{runtimeErr(msg)})
}

// derefCheck returns the pointer, raising the target's nil-dereference panic for a nil pointer.
func derefCheck(p value) *value {
	pv, ok := p.(*value)
	if !ok {
		panic(fmt.Sprintf("derefCheck: not a pointer: %T", p))
	}
	if pv == nil {
		tpanic("invalid memory address or nil pointer dereference")
	}
	return pv
}

func isIntZero(y value) bool {
	switch y := y.(type) {
	case int:
		return y == 0
	case int8:
		return y == 0
	case int16:
		return y == 0
	case int32:
		return y == 0
	case int64:
		return y == 0
	case uint:
		return y == 0
	case uint8:
		return y == 0
	case uint16:
		return y == 0
	case uint32:
		return y == 0
	case uint64:
		return y == 0
	case uintptr:
		return y == 0
	}
	return false
}

// concIntRange returns a concrete value for x, which must lie in [lo, hi]; otherwise the target
// panics with msg. A symbolic x first decides the range check and is then split over its feasible
// values (at most maxSplit of them; more is reported as unsupported).
func concIntRange(x value, lo, hi int64, msg string) int64 {
	s, ok := x.(sym)
	if !ok {
		v := asInt64(x)
		if v < lo || v > hi {
			tpanic(msg)
		}
		return v
	}
	w, signed := kindWidth(s.k)
	var inb *Term
	if signed {
		inb = mkAnd(mkCmp("bvsge", s.t, mkConst(w, uint64(lo))), mkCmp("bvsle", s.t, mkConst(w, uint64(hi))))
	} else {
		if lo < 0 {
			lo = 0
		}
		inb = mkAnd(mkCmp("bvuge", s.t, mkConst(w, uint64(lo))), mkCmp("bvule", s.t, mkConst(w, uint64(hi))))
	}
	if !ex.branch(inb) {
		tpanic(msg)
	}
	return int64(ex.concretizeRange(s.t, lo, hi))
}

const maxSplit = 300
