// Copyright 2013 The Go Authors. All rights reserved.
// Use of this source code is governed by a BSD-style
// license that can be found in the LICENSE file.

package interp

// Values
//
// All interpreter values are "boxed" in the empty interface, value.
// The range of possible dynamic types within value are:
//
// - bool
// - numbers (all built-in int/float/complex types are distinguished)
// - string
// - map[value]value --- maps for which  usesBuiltinMap(keyType)
//   *hashmap        --- maps for which !usesBuiltinMap(keyType)
// - chan value
// - []value --- slices
// - iface --- interfaces.
// - structure --- structs.  Fields are ordered and accessed by numeric indices.
// - array --- arrays.
// - *value --- pointers.  Careful: *value is a distinct type from *array etc.
// - *ssa.Function \
//   *ssa.Builtin   } --- functions.  A nil 'func' is always of type *ssa.Function.
//   *closure      /
// - tuple --- as returned by Return, Next, "value,ok" modes, etc.
// - iter --- iterators from 'range' over map or string.
// - bad --- a poison pill for locals that have gone out of scope.
// - rtype -- the interpreter's concrete implementation of reflect.Type
// - **deferred -- the address of a frame's defer stack for a Defer._Stack.
//
// Note that nil is not on this list.
//
// Pay close attention to whether or not the dynamic type is a pointer.
// The compiler cannot help you since value is an empty interface.

import (
	"bytes"
	"fmt"
	"go/types"
	"io"
	"reflect"
	"strings"
	"sync"
	"unsafe"

	"golang.org/x/tools/go/ssa"
	"golang.org/x/tools/go/types/typeutil"
)

type value interface{}

type tuple []value

type array []value

type iface struct {
	t types.Type // never an "untyped" type
	v value
}

type structure []value

// For map, array, *array, slice, string or channel.
type iter interface {
	// next returns a Tuple (key, value, ok).
	// key and value are unaliased, e.g. copies of the sequence element.
	next() tuple
}

type closure struct {
	Fn  *ssa.Function
	Env []value
}

type bad struct{}

type rtype struct {
	t types.Type
}

// Hash functions and equivalence relation:

// hashString computes the FNV hash of s.
func hashString(s string) int {
	var h uint32
	for i := 0; i < len(s); i++ {
		h ^= uint32(s[i])
		h *= 16777619
	}
	return int(h)
}

var (
	mu     sync.Mutex
	hasher = typeutil.MakeHasher()
)

// hashType returns a hash for t such that
// types.Identical(x, y) => hashType(x) == hashType(y).
func hashType(t types.Type) int {
	return int(hasher.Hash(t))
}

// usesBuiltinMap returns true if the built-in hash function and
// equivalence relation for type t are consistent with those of the
// interpreter's representation of type t.  Such types are: all basic
// types (bool, numbers, string), pointers and channels.
//
// usesBuiltinMap returns false for types that require a custom map
// implementation: interfaces, arrays and structs.
//
// Panic ensues if t is an invalid map key type: function, map or slice.
func usesBuiltinMap(t types.Type) bool {
	switch t := t.(type) {
	case *types.Basic, *types.Chan, *types.Pointer:
		return true
	case *types.Named, *types.Alias:
		return usesBuiltinMap(t.Underlying())
	case *types.Interface, *types.Array, *types.Struct:
		return false
	}
	panic(fmt.Sprintf("invalid map key type: %T", t))
}

func (x array) eq(t types.Type, _y interface{}) bool {
	y := _y.(array)
	tElt := t.Underlying().(*types.Array).Elem()
	for i, xi := range x {
		if !equals(tElt, xi, y[i]) {
			return false
		}
	}
	return true
}

func (x array) hash(t types.Type) int {
	h := 0
	tElt := t.Underlying().(*types.Array).Elem()
	for _, xi := range x {
		h += hash(t, tElt, xi)
	}
	return h
}

func (x structure) eq(t types.Type, _y interface{}) bool {
	y := _y.(structure)
	tStruct := t.Underlying().(*types.Struct)
	for i, n := 0, tStruct.NumFields(); i < n; i++ {
		if f := tStruct.Field(i); !f.Anonymous() {
			if !equals(f.Type(), x[i], y[i]) {
				return false
			}
		}
	}
	return true
}

func (x structure) hash(t types.Type) int {
	tStruct := t.Underlying().(*types.Struct)
	h := 0
	for i, n := 0, tStruct.NumFields(); i < n; i++ {
		if f := tStruct.Field(i); !f.Anonymous() {
			h += hash(t, f.Type(), x[i])
		}
	}
	return h
}

// nil-tolerant variant of types.Identical.
func sameType(x, y types.Type) bool {
	if x == nil {
		return y == nil
	}
	return y != nil && types.Identical(x, y)
}

func (x iface) eq(t types.Type, _y interface{}) bool {
	y := _y.(iface)
	return sameType(x.t, y.t) && (x.t == nil || equals(x.t, x.v, y.v))
}

func (x iface) hash(outer types.Type) int {
	return hashType(x.t)*8581 + hash(outer, x.t, x.v)
}

func (x rtype) hash(_ types.Type) int {
	return hashType(x.t)
}

func (x rtype) eq(_ types.Type, y interface{}) bool {
	return types.Identical(x.t, y.(rtype).t)
}

// equals returns true iff x and y are equal according to Go's
// linguistic equivalence relation for type t.
// In a well-typed program, the dynamic types of x and y are
// guaranteed equal.
func equals(t types.Type, x, y value) bool {
	switch x := x.(type) {
	case bool:
		return x == y.(bool)
	case int:
		return x == y.(int)
	case int8:
		return x == y.(int8)
	case int16:
		return x == y.(int16)
	case int32:
		return x == y.(int32)
	case int64:
		return x == y.(int64)
	case uint:
		return x == y.(uint)
	case uint8:
		return x == y.(uint8)
	case uint16:
		return x == y.(uint16)
	case uint32:
		return x == y.(uint32)
	case uint64:
		return x == y.(uint64)
	case uintptr:
		return x == y.(uintptr)
	case float32:
		return x == y.(float32)
	case float64:
		return x == y.(float64)
	case complex64:
		return x == y.(complex64)
	case complex128:
		return x == y.(complex128)
	case string:
		return x == y.(string)
	case *value:
		return x == y.(*value)
	case chan value:
		return x == y.(chan value)
	case structure:
		return x.eq(t, y)
	case array:
		return x.eq(t, y)
	case iface:
		return x.eq(t, y)
	case rtype:
		return x.eq(t, y)
	}

	// Since map, func and slice don't support comparison, this
	// case is only reachable if one of x or y is literally nil
	// (handled in eqnil) or via interface{} values.
	panic(fmt.Sprintf("comparing uncomparable type %s", t))
}

// Returns an integer hash of x such that equals(x, y) => hash(x) == hash(y).
// The outer type is used only for the "unhashable" panic message.
func hash(outer, t types.Type, x value) int {
	switch x := x.(type) {
	case bool:
		if x {
			return 1
		}
		return 0
	case int:
		return x
	case int8:
		return int(x)
	case int16:
		return int(x)
	case int32:
		return int(x)
	case int64:
		return int(x)
	case uint:
		return int(x)
	case uint8:
		return int(x)
	case uint16:
		return int(x)
	case uint32:
		return int(x)
	case uint64:
		return int(x)
	case uintptr:
		return int(x)
	case float32:
		return int(x)
	case float64:
		return int(x)
	case complex64:
		return int(real(x))
	case complex128:
		return int(real(x))
	case string:
		return hashString(x)
	case *value:
		return int(uintptr(unsafe.Pointer(x)))
	case chan value:
		return int(uintptr(reflect.ValueOf(x).Pointer()))
	case structure:
		return x.hash(t)
	case array:
		return x.hash(t)
	case iface:
		return x.hash(t)
	case rtype:
		return x.hash(t)
	case intModel:
		if s, ok := x.small.(int64); ok && x.big.(*value) == nil {
			return int(s)
		}
		panic(pathAbort{"unsupported: hashing a symbolic or big starlark.Int"})
	case sym, symstr:
		panic(pathAbort{"unsupported: hashing a symbolic value (map key)"})
	}
	panic(fmt.Sprintf("unhashable type %v", outer))
}

// reflect.Value struct values don't have a fixed shape, since the
// payload can be a scalar or an aggregate depending on the instance.
// So store (and load) can't simply use recursion over the shape of the
// rhs value, or the lhs, to copy the value; we need the static type
// information.  (We can't make reflect.Value a new basic data type
// because its "structness" is exposed to Go programs.)

// load returns the value of type T in *addr.
func load(T types.Type, addr *value) value {
	switch T := T.Underlying().(type) {
	case *types.Struct:
		v := (*addr).(structure)
		a := make(structure, len(v))
		for i := range a {
			a[i] = load(T.Field(i).Type(), &v[i])
		}
		return a
	case *types.Array:
		v := (*addr).(array)
		a := make(array, len(v))
		for i := range a {
			a[i] = load(T.Elem(), &v[i])
		}
		return a
	default:
		return *addr
	}
}

// store stores value v of type T into *addr.
func store(T types.Type, addr *value, v value) {
	switch T := T.Underlying().(type) {
	case *types.Struct:
		lhs := (*addr).(structure)
		rhs := v.(structure)
		for i := range lhs {
			store(T.Field(i).Type(), &lhs[i], rhs[i])
		}
	case *types.Array:
		lhs := (*addr).(array)
		rhs := v.(array)
		for i := range lhs {
			store(T.Elem(), &lhs[i], rhs[i])
		}
	default:
		*addr = v
	}
}

// Prints in the style of built-in println.
// (More or less; in gc println is actually a compiler intrinsic and
// can distinguish println(1) from println(interface{}(1)).)
func writeValue(buf *bytes.Buffer, v value) {
	switch v := v.(type) {
	case nil, bool, int, int8, int16, int32, int64, uint, uint8, uint16, uint32, uint64, uintptr, float32, float64, complex64, complex128, string:
		fmt.Fprintf(buf, "%v", v)

	case map[value]value:
		buf.WriteString("map[")
		sep := ""
		for k, e := range v {
			buf.WriteString(sep)
			sep = " "
			writeValue(buf, k)
			buf.WriteString(":")
			writeValue(buf, e)
		}
		buf.WriteString("]")

	case *hashmap:
		buf.WriteString("map[")
		sep := " "
		for _, e := range v.entries() {
			for e != nil {
				buf.WriteString(sep)
				sep = " "
				writeValue(buf, e.key)
				buf.WriteString(":")
				writeValue(buf, e.value)
				e = e.next
			}
		}
		buf.WriteString("]")

	case chan value:
		fmt.Fprintf(buf, "%v", v) // (an address)

	case *value:
		if v == nil {
			buf.WriteString("<nil>")
		} else {
			fmt.Fprintf(buf, "%p", v)
		}

	case iface:
		fmt.Fprintf(buf, "(%s, ", v.t)
		writeValue(buf, v.v)
		buf.WriteString(")")

	case structure:
		buf.WriteString("{")
		for i, e := range v {
			if i > 0 {
				buf.WriteString(" ")
			}
			writeValue(buf, e)
		}
		buf.WriteString("}")

	case array:
		buf.WriteString("[")
		for i, e := range v {
			if i > 0 {
				buf.WriteString(" ")
			}
			writeValue(buf, e)
		}
		buf.WriteString("]")

	case []value:
		buf.WriteString("[")
		for i, e := range v {
			if i > 0 {
				buf.WriteString(" ")
			}
			writeValue(buf, e)
		}
		buf.WriteString("]")

	case *ssa.Function, *ssa.Builtin, *closure:
		fmt.Fprintf(buf, "%p", v) // (an address)

	case rtype:
		buf.WriteString(v.t.String())

	case tuple:
		// Unreachable in well-formed Go programs
		buf.WriteString("(")
		for i, e := range v {
			if i > 0 {
				buf.WriteString(", ")
			}
			writeValue(buf, e)
		}
		buf.WriteString(")")

	default:
		fmt.Fprintf(buf, "<%T>", v)
	}
}

// Implements printing of Go values in the style of built-in println.
func toString(v value) string {
	var b bytes.Buffer
	writeValue(&b, v)
	return b.String()
}

// ------------------------------------------------------------------------
// Iterators

type stringIter struct {
	*strings.Reader
	i int
}

func (it *stringIter) next() tuple {
	okv := make(tuple, 3)
	ch, n, err := it.ReadRune()
	ok := err != io.EOF
	okv[0] = ok
	if ok {
		okv[1] = it.i
		okv[2] = ch
	}
	it.i += n
	return okv
}

type mapIter struct {
	m       map[value]value
	entries [][2]value
	i       int
}

func (it *mapIter) next() tuple {
	for it.i < len(it.entries) {
		e := it.entries[it.i]
		it.i++
		if _, isSym := e[0].(symstr); isSym {
			return []value{true, e[0], e[1]}
		}
		if v, ok := it.m[e[0]]; ok { // entries deleted during the iteration are skipped
			return []value{true, e[0], v}
		}
	}
	return []value{false, nil, nil}
}

type hashmapIter struct {
	entries []*entry
	i       int
}

func (it *hashmapIter) next() tuple {
	if it.i < len(it.entries) {
		e := it.entries[it.i]
		it.i++
		return []value{true, e.key, e.value}
	}
	return []value{false, nil, nil}
}
