package interp

import (
	"fmt"
	"go/token"
	"go/types"
	"sort"
	"strings"
	"unicode/utf8"

	"golang.org/x/tools/go/ssa"
)

func isIntrinsic(name string) bool {
	if strings.HasPrefix(name, "vNondet") {
		return true
	}
	switch name {
	case "vAssume", "vAssert", "vReach", "vB2I", "vHash", "vCrash", "vCatchCrash", "vParam", "vChoose", "vRegion", "vNote", "vIsSym", "vHang", "vNative", "vHeld", "vSyncMapPut", "vMapPad":
		return true
	}
	return false
}

type crashPanic struct{}

func asStr(v value) string {
	switch v := v.(type) {
	case string:
		return v
	}
	return "?"
}

func callIntrinsic(fr *frame, fn *ssa.Function, args []value) value {
	switch fn.Name() {
	case "vNondetU8":
		return sym{ex.newInput(asStr(args[0]), 8), types.Uint8}
	case "vNondetU16":
		return sym{ex.newInput(asStr(args[0]), 16), types.Uint16}
	case "vNondetU32":
		return sym{ex.newInput(asStr(args[0]), 32), types.Uint32}
	case "vNondetU64":
		return sym{ex.newInput(asStr(args[0]), 64), types.Uint64}
	case "vNondetI64":
		return sym{ex.newInput(asStr(args[0]), 64), types.Int64}
	case "vNondetBool":
		return sym{ex.newInput(asStr(args[0]), 0), types.Bool}
	case "vAssume":
		t, _ := termOf(args[0])
		ex.assume(t)
		return nil
	case "vAssert":
		t, _ := termOf(args[0])
		ex.assert(t, asStr(args[1]))
		return nil
	case "vB2I":
		t, _ := termOf(args[0])
		return mkSym(mkIte(t, mkConst(8, 1), mkConst(8, 0)), types.Uint8)
	case "vHash":
		return hashModel(args[0].([]value))
	case "vCrash":
		panic(crashPanic{})
	case "vCatchCrash":
		crashed := false
		depth := len(callStack)
		func() {
			defer func() {
				if r := recover(); r != nil {
					if _, ok := r.(crashPanic); ok {
						crashed = true
						callStack = callStack[:depth]
						heldLocks = map[*value]bool{}
		hashCalls = nil
						return
					}
					panic(r)
				}
			}()
			call(fr.i, fr, token.NoPos, args[0], nil)
		}()
		return crashed
	case "vReach":
		ex.Reached[asStr(args[0])]++
		return nil
	case "vParam":
		v, ok := ex.Params[asStr(args[0])]
		if !ok {
			panic(pathAbort{"engine: harness asks for undeclared parameter " + asStr(args[0])})
		}
		return v
	case "vChoose":
		// an environment choice among n alternatives, recorded as a named input so that the
		// assignment carries it
		n := args[1].(int)
		if n <= 1 {
			return 0
		}
		t := ex.newInput(asStr(args[0]), 8)
		ex.assume(mkCmp("bvult", t, mkConst(8, uint64(n))))
		return int(ex.concretizeRange(t, 0, int64(n-1)))
	case "vRegion":
		t, _ := termOf(args[1])
		ex.declareRegion(asStr(args[0]), t)
		return nil
	case "vNote":
		ex.note(asStr(args[0]))
		return nil
	case "vIsSym":
		return containsSym(args[0])
	case "vNative":
		return false
	case "vHeld":
		return heldCount()
	case "vMapPad":
		// the map holds, besides its explicit entries, n further entries under keys the code never names
		m, ok := args[0].(iface).v.(map[value]value)
		if !ok {
			panic("vMapPad: not a builtin map")
		}
		t, _ := termOf(args[1])
		mapKeep = append(mapKeep, m)
		mapPad[mapID(m)] = t
		return nil
	case "vSyncMapPut":
		// interference: another thread stored (k, v) into the sync.Map unless the key is present
		m := args[0].(*value)
		for _, e := range syncMaps[m] {
			if syncKeyEq(e.k, args[1]) {
				return false
			}
		}
		syncMaps[m] = append(syncMaps[m], syncMapEntry{args[1], args[2]})
		return true
	case "vHang":
		// the harness detected that the code under test would block for ever
		panic(targetPanic{iface{t: fr.i.runtimeErrorString, v: "VERIF: hang: " + asStr(args[0])}})
	}
	panic("unknown intrinsic " + fn.Name())
}

// ---- models of library functions (symbolic-aware) ----

func decideEq(a, b value) bool {
	x, _ := termOf(a)
	y, _ := termOf(b)
	return ex.branch(mkEq(x, y))
}

func registerModels() {
	for k, v := range map[string]externalFn{
		"strings.IndexByte": func(fr *frame, args []value) value {
			s, c := args[0], args[1]
			for i := 0; i < strLen(s); i++ {
				if decideEq(strByte(s, i), c) {
					return i
				}
			}
			return -1
		},
		"internal/stringslite.IndexByte": func(fr *frame, args []value) value {
			s, c := args[0], args[1]
			for i := 0; i < strLen(s); i++ {
				if decideEq(strByte(s, i), c) {
					return i
				}
			}
			return -1
		},
		"strings.LastIndexByte": func(fr *frame, args []value) value {
			s, c := args[0], args[1]
			for i := strLen(s) - 1; i >= 0; i-- {
				if decideEq(strByte(s, i), c) {
					return i
				}
			}
			return -1
		},
		"strings.Index": extStringsIndex,
		"strings.ContainsAny": func(fr *frame, args []value) value {
			s, chars := args[0], args[1]
			for i := 0; i < strLen(s); i++ {
				c := mkBool(false)
				a, _ := termOf(strByte(s, i))
				for j := 0; j < strLen(chars); j++ {
					b, _ := termOf(strByte(chars, j))
					c = mkOr(c, mkEq(a, b))
				}
				if ex.branch(c) {
					return true
				}
			}
			return false
		},
		"strings.ContainsRune": func(fr *frame, args []value) value {
			s := args[0]
			r := args[1].(int32)
			if r >= utf8.RuneSelf {
				panic(pathAbort{"unsupported: ContainsRune non-ASCII"})
			}
			for i := 0; i < strLen(s); i++ {
				if decideEq(strByte(s, i), uint8(r)) {
					return true
				}
			}
			return false
		},
		"(*strings.Builder).WriteString": func(fr *frame, args []value) value {
			st := (*args[0].(*value)).(structure)
			buf, _ := st[1].([]value)
			st[1] = append(buf, toSymstr(args[1])...)
			return tuple{strLen(args[1]), iface{}}
		},
		"(*strings.Builder).Write": func(fr *frame, args []value) value {
			st := (*args[0].(*value)).(structure)
			buf, _ := st[1].([]value)
			st[1] = append(buf, args[1].([]value)...)
			return tuple{len(args[1].([]value)), iface{}}
		},
		"(*strings.Builder).WriteByte": func(fr *frame, args []value) value {
			st := (*args[0].(*value)).(structure)
			buf, _ := st[1].([]value)
			st[1] = append(buf, args[1])
			return iface{}
		},
		"(*strings.Builder).WriteRune": func(fr *frame, args []value) value {
			st := (*args[0].(*value)).(structure)
			buf, _ := st[1].([]value)
			r := args[1].(int32)
			var tmp [4]byte
			n := utf8.EncodeRune(tmp[:], r)
			for _, b := range tmp[:n] {
				buf = append(buf, b)
			}
			st[1] = buf
			return tuple{n, iface{}}
		},
		"(*strings.Builder).String": func(fr *frame, args []value) value {
			st := (*args[0].(*value)).(structure)
			buf, _ := st[1].([]value)
			ss := make(symstr, len(buf))
			copy(ss, buf)
			return normStr(ss)
		},
		"(*strings.Builder).Len": func(fr *frame, args []value) value {
			st := (*args[0].(*value)).(structure)
			buf, _ := st[1].([]value)
			return len(buf)
		},
		"(*strings.Builder).Grow": func(fr *frame, args []value) value {
			neg := false
			if sx, ok := args[1].(sym); ok {
				w, _ := kindWidth(sx.k)
				neg = ex.branch(mkCmp("bvslt", sx.t, mkConst(w, 0)))
			} else {
				neg = asInt64(args[1]) < 0
			}
			if neg {
				panic(targetPanic{iface{t: types.Typ[types.String], v: "strings.Builder.Grow: negative count"}})
			}
			return nil // capacity is not observable
		},
		"(reflect.rtype).Comparable": func(fr *frame, args []value) value {
			return types.Comparable(args[0].(rtype).t)
		},
	} {
		externals[k] = v
	}
}

func extStringsIndex(fr *frame, args []value) value {
	s, sub := args[0], args[1]
	n, m := strLen(s), strLen(sub)
	for i := 0; i+m <= n; i++ {
		c := mkBool(true)
		for j := 0; j < m; j++ {
			a, _ := termOf(strByte(s, i+j))
			b, _ := termOf(strByte(sub, j))
			c = mkAnd(c, mkEq(a, b))
		}
		if ex.branch(c) {
			return i
		}
	}
	return -1
}

func FuncsSeen(m map[string]int) string {
	var ks []string
	for k := range m {
		ks = append(ks, k)
	}
	sort.Strings(ks)
	var b strings.Builder
	for _, k := range ks {
		fmt.Fprintf(&b, "  %s x%d\n", k, m[k])
	}
	return b.String()
}

func init() {
	cmp := func(fr *frame, args []value) value {
		a, b := args[0], args[1]
		if !anySym(a, b) {
			return strings.Compare(a.(string), b.(string))
		}
		eq, _ := termOf(strEq(a, b))
		lt := strLess(a, b, false)
		t := mkIte(eq, mkConst(64, 0), mkIte(lt, mkConst(64, ^uint64(0)), mkConst(64, 1)))
		return mkSym(t, types.Int)
	}
	lateModels["strings.Compare"] = cmp
	lateModels["internal/bytealg.CompareString"] = cmp
}

var lateModels = map[string]externalFn{}

func init() {
	lateModels["bytes.IndexByte"] = func(fr *frame, args []value) value {
		b, c := args[0].([]value), args[1]
		for i := range b {
			if decideEq(b[i], c) {
				return i
			}
		}
		return -1
	}
}

// ---- perfect-hash model: fresh 32 symbolic bytes per call; inputs equal <=> outputs equal ----
type hashCall struct{ in, out []*Term }

var hashCalls []hashCall

func hashModel(data []value) value {
	var in []*Term
	for _, b := range data {
		t, _ := termOf(b)
		in = append(in, t)
	}
	out := make([]*Term, 32)
	res := make([]value, 32)
	for i := range out {
		out[i] = ex.newInput("hash", 8)
		res[i] = sym{out[i], types.Uint8}
	}
	for _, prev := range hashCalls {
		eqOut := mkBool(true)
		for k := range out {
			eqOut = mkAnd(eqOut, mkEq(out[k], prev.out[k]))
		}
		if len(prev.in) != len(in) {
			ex.assume(mkNot(eqOut))
			continue
		}
		eqIn := mkBool(true)
		for k := range in {
			eqIn = mkAnd(eqIn, mkEq(in[k], prev.in[k]))
		}
		ex.assume(mkOr(mkAnd(eqIn, eqOut), mkAnd(mkNot(eqIn), mkNot(eqOut))))
	}
	hashCalls = append(hashCalls, hashCall{in, out})
	return res
}

func init() {
	lateModels["strings.Split"] = func(fr *frame, args []value) value {
		s, sep := args[0], args[1].(string)
		if len(sep) != 1 {
			panic(pathAbort{"unsupported: strings.Split with multi-byte separator"})
		}
		var out []value
		start := 0
		n := strLen(s)
		for i := 0; i < n; i++ {
			if decideEq(strByte(s, i), sep[0]) {
				out = append(out, normStr(append(symstr{}, toSymstr(s)[start:i]...)))
				start = i + 1
			}
		}
		out = append(out, normStr(append(symstr{}, toSymstr(s)[start:]...)))
		return out
	}
	lateModels["strings.Contains"] = func(fr *frame, args []value) value {
		return extStringsIndex(fr, args).(int) >= 0
	}
	lateModels["strings.LastIndex"] = func(fr *frame, args []value) value {
		s, sub := args[0], args[1]
		n, m := strLen(s), strLen(sub)
		for i := n - m; i >= 0; i-- {
			c := mkBool(true)
			for j := 0; j < m; j++ {
				a, _ := termOf(strByte(s, i+j))
				b, _ := termOf(strByte(sub, j))
				c = mkAnd(c, mkEq(a, b))
			}
			if ex.branch(c) {
				return i
			}
		}
		return -1
	}
}

// decodeRuneSym decodes the UTF-8 sequence starting at s[i] (bytes may be symbolic), forking on the
// byte classes exactly as unicode/utf8.DecodeRuneInString does; returns the rune (int32, possibly
// symbolic) and its width.
func decodeRuneSym(s value, i int) (value, int) {
	n := strLen(s)
	bt := func(k int) *Term { t, _ := termOf(strByte(s, k)); return t }
	in := func(t *Term, lo, hi uint64) bool {
		return ex.branch(mkAnd(mkCmp("bvuge", t, mkConst(8, lo)), mkCmp("bvule", t, mkConst(8, hi))))
	}
	ext := func(t *Term) *Term { return mkExtend(false, 32, t) }
	cont := func(t *Term) *Term { return mkBV("bvand", ext(t), mkConst(32, 0x3F)) }
	shl := func(t *Term, k uint64) *Term { return mkBV("bvshl", t, mkConst(32, k)) }
	or := func(a, b *Term) *Term { return mkBV("bvor", a, b) }
	runeError := value(int32(0xFFFD))
	b0 := bt(i)
	if ex.branch(mkCmp("bvult", b0, mkConst(8, 0x80))) {
		return mkSym(ext(b0), types.Int32), 1
	}
	if in(b0, 0xC2, 0xDF) {
		if i+1 < n && in(bt(i+1), 0x80, 0xBF) {
			return mkSym(or(shl(mkBV("bvand", ext(b0), mkConst(32, 0x1F)), 6), cont(bt(i+1))), types.Int32), 2
		}
		return runeError, 1
	}
	if in(b0, 0xE0, 0xEF) {
		lo, hi := uint64(0x80), uint64(0xBF)
		if ex.branch(mkEq(b0, mkConst(8, 0xE0))) {
			lo = 0xA0
		} else if ex.branch(mkEq(b0, mkConst(8, 0xED))) {
			hi = 0x9F
		}
		if i+2 < n && in(bt(i+1), lo, hi) && in(bt(i+2), 0x80, 0xBF) {
			r := or(or(shl(mkBV("bvand", ext(b0), mkConst(32, 0x0F)), 12), shl(cont(bt(i+1)), 6)), cont(bt(i+2)))
			return mkSym(r, types.Int32), 3
		}
		return runeError, 1
	}
	if in(b0, 0xF0, 0xF4) {
		lo, hi := uint64(0x80), uint64(0xBF)
		if ex.branch(mkEq(b0, mkConst(8, 0xF0))) {
			lo = 0x90
		} else if ex.branch(mkEq(b0, mkConst(8, 0xF4))) {
			hi = 0x8F
		}
		if i+3 < n && in(bt(i+1), lo, hi) && in(bt(i+2), 0x80, 0xBF) && in(bt(i+3), 0x80, 0xBF) {
			r := or(or(or(shl(mkBV("bvand", ext(b0), mkConst(32, 0x07)), 18), shl(cont(bt(i+1)), 12)), shl(cont(bt(i+2)), 6)), cont(bt(i+3)))
			return mkSym(r, types.Int32), 4
		}
		return runeError, 1
	}
	return runeError, 1
}

func init() {
	// strings.ContainsFunc(s, f): f is called on each rune of s, decoded as UTF-8 (symbolic bytes
	// are decoded with a case split on the byte classes)
	lateModels["strings.ContainsFunc"] = func(fr *frame, args []value) value {
		modelsHit["strings.ContainsFunc"]++
		s := args[0]
		for i := 0; i < strLen(s); {
			r, w := decodeRuneSym(s, i)
			i += w
			res := call(fr.i, fr, token.NoPos, args[1], []value{r})
			switch res := res.(type) {
			case bool:
				if res {
					return true
				}
			case sym:
				if ex.branch(res.t) {
					return true
				}
			}
		}
		return false
	}
}
