package util

// C17: a glob set matches a path exactly when at least one pattern matches the whole path.

// ---- reference semantics, written from the property's sentence ----
// atoms: 'c' literal ; '?' one character ; 'N' run of non-separators ; 'A' any run

type vAtom struct {
	kind byte
	c    byte
}

func vGlobAtoms(g string) ([]vAtom, bool) {
	var atoms []vAtom
	for i := 0; i < len(g); i++ {
		switch b := g[i]; {
		case b == '\\':
			if i+1 >= len(g) {
				return nil, false
			}
			c := g[i+1]
			if c != '\\' && c != '*' && c != '?' && c != '[' && c != ']' {
				return nil, false
			}
			atoms = append(atoms, vAtom{'c', c})
			i++
		case b == '*':
			if i+1 < len(g) && g[i+1] == '*' {
				atoms = append(atoms, vAtom{'A', 0})
				i++
			} else {
				atoms = append(atoms, vAtom{'N', 0})
			}
		case b == '?':
			atoms = append(atoms, vAtom{'?', 0})
		default:
			atoms = append(atoms, vAtom{'c', b})
		}
	}
	return atoms, true
}

// vRefMatch returns (as a 0/1 byte term) whether atoms match the whole of s.
func vRefMatch(atoms []vAtom, s string) uint8 {
	n := len(s)
	cur := make([]uint8, n+1)
	cur[n] = 1
	for j := len(atoms) - 1; j >= 0; j-- {
		next := make([]uint8, n+1)
		a := atoms[j]
		switch a.kind {
		case 'c':
			for p := 0; p < n; p++ {
				next[p] = vB2I(s[p] == a.c) & cur[p+1]
			}
		case '?':
			for p := 0; p < n; p++ {
				next[p] = cur[p+1]
			}
		case 'A', 'N':
			for p := n; p >= 0; p-- {
				next[p] = cur[p]
				if p < n {
					ok := uint8(1)
					if a.kind == 'N' {
						ok = vB2I(s[p] != '/')
					}
					next[p] |= ok & next[p+1]
				}
			}
		}
		cur = next
	}
	return cur[0]
}

func vPrintable(b byte) bool { return b >= 0x20 && b <= 0x7e }

// vClass partitions the printable bytes by how CompileGlobs treats them; used to split one
// exploration over workers (chunk parameters), not to restrict the input space.
func vClass(b byte) int {
	switch b {
	case '\\':
		return 0
	case '*':
		return 1
	case '?':
		return 2
	case '.', '+', '(', ')', '|', '{', '}', '^', '$':
		return 3
	case '[', ']':
		return 4
	case '/':
		return 5
	}
	return 6
}

func vHasBracket(g []byte) bool {
	r := false
	for _, b := range g {
		r = r || b == '[' || b == ']'
	}
	return r
}

// VHarnessC17: CompileGlobs(patterns).MatchString(path) == OR_i ref(pattern_i, path), for k patterns
// of g bytes each and a path of p bytes, all printable ASCII.
func VHarnessC17() {
	k, gl, pl := vParam("k"), vParam("g"), vParam("p")
	globs := make([]string, k)
	path := make([]byte, pl)
	for i := range path {
		path[i] = vNondetU8("p")
		vAssume(vPrintable(path[i]))
	}
	var want uint8
	okAll := true
	brackets := false
	for j := range globs {
		g := make([]byte, gl)
		for i := range g {
			g[i] = vNondetU8("g")
			vAssume(vPrintable(g[i]))
		}
		if gl > 0 && j == 0 && vParam("c0") >= 0 {
			vAssume(vClass(g[0]) == vParam("c0"))
		}
		if gl > 0 && j == 1 && vParam("c1") >= 0 {
			vAssume(vClass(g[0]) == vParam("c1"))
		}
		brackets = brackets || vHasBracket(g)
		globs[j] = string(g)
		atoms, ok := vGlobAtoms(globs[j])
		if !ok {
			okAll = false
			continue
		}
		want |= vRefMatch(atoms, string(path))
	}
	vRegion("D5-brackets", brackets)
	vRegion("D4-anchoring", k >= 2)
	re, err := CompileGlobs(globs)
	if !okAll {
		vAssert(err != nil, "invalid-escape-rejected")
		vReach("invalid")
		return
	}
	vAssert(err == nil, "valid-globs-compile")
	if err != nil {
		return
	}
	got := re.MatchString(string(path))
	vAssert(got == (want == 1), "match-iff-some-pattern-matches-whole-path")
	vReach("compared")
}

// VHarnessC17Twin: reachability twin.
func VHarnessC17Twin() {
	g := []byte{vNondetU8("g")}
	vAssume(vPrintable(g[0]))
	if re, err := CompileGlobs([]string{string(g)}); err == nil && re.MatchString("a") {
		vAssert(false, "twin")
	}
}

// VHarnessC17Twice: a glob set's meaning depends only on its own patterns, not on what was compiled
// before: a first list of two one-byte patterns is compiled, then a second list of one three-byte
// pattern (and the other way round), and the second result must still be the union of ITS patterns.
func VHarnessC17Twice() {
	sym := func(n int, tag string) []byte {
		g := make([]byte, n)
		for i := range g {
			g[i] = vNondetU8(tag)
			// a seven-letter alphabet: this harness is about state carried between calls, not
			// about the alphabet (which the other units cover)
			x := g[i]
			in := vB2I(x == 'a') | vB2I(x == ',') | vB2I(x == '*') | vB2I(x == '?') | vB2I(x == '\\') | vB2I(x == '/') | vB2I(x == '.')
			vAssume(in == 1) // one term, no case split
		}
		return g
	}
	a, b, c := sym(1, "a"), sym(1, "b"), sym(3, "c")
	vAssume(vClass(a[0]) == vParam("ca")) // split over workers
	first, second := []string{string(a), string(b)}, []string{string(c)}
	if vParam("swap") == 1 {
		first, second = second, first
	}
	if _, err := CompileGlobs(first); err != nil {
		return
	}
	path := sym(vParam("p"), "p")
	var want uint8
	for _, g := range second {
		atoms, ok := vGlobAtoms(g)
		if !ok {
			return
		}
		want |= vRefMatch(atoms, string(path))
	}
	re, err := CompileGlobs(second)
	vAssert(err == nil, "twice-second-list-compiles")
	if err != nil {
		return
	}
	vAssert(re.MatchString(string(path)) == (want == 1), "twice-second-set-means-its-own-patterns")
	vReach("twice")
}
