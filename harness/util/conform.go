package util

// Translator validation AND model validation: in the engine CompileGlobs runs against the
// regexp-subset model, natively against the real regexp package; the match results must agree.

func VConformGlob() {
	sets := [][]string{
		{"*.go"}, {"**/*.go"}, {"a?c"}, {"a\\*c"}, {"src/**", "*.md"}, {"a", "b"}, {"", ""}, {"a.b", "c+d", "e|f", "(g)", "h{2}", "^i$"},
		{"**"}, {"*"}, {"a/*/c", "x\\?y"}, {"\\\\"}, {"a\\b"}, {"\\"}, {"{1}"}, {"x{1,2}"}, {"a,b"}, {"a", "b,c"},
	}
	paths := []string{"", "a", "b", "ax", "xb", "main.go", "src/main.go", "src/a/b.go", "abc", "a*c", "a.b", "axb", "c+d", "cd", "e|f", "e", "(g)", "g", "h{2}", "hh", "^i$", "i",
		"README.md", "a/b/c", "a/c", "x?y", "xzy", "\\", "a\\b", "{1}", "x{1,2}", "xx", "a,b", "b,c", " ", "/"}
	for _, set := range sets {
		re, err := CompileGlobs(set)
		name := ""
		for _, g := range set {
			name += "<" + g + ">"
		}
		if err != nil {
			vNote("globs " + name + " -> compile error")
			continue
		}
		m := ""
		for _, p := range paths {
			if re.MatchString(p) {
				m += "1"
			} else {
				m += "0"
			}
		}
		vNote("globs " + name + " -> " + m)
	}
}
