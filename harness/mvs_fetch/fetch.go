package mvs

import (
	"context"
	"io/fs"
	"iter"
	"os"
	"strings"
	"time"

	"golang.org/x/mod/module"

	"github.com/pgavlin/dawn/internal/project"
	"github.com/pgavlin/dawn/internal/vcs"
)

// C10 (download cache): the answer does not depend on the state of the download cache. The real
// Resolver.FetchProject and Resolver.resolveProject run over a modelled file system and a modelled
// repository whose FetchRevision copies the revision's files one by one and may fail after any of
// them (os.CopyFS in the git implementation). Whatever the first process did — fetched, failed
// part-way, lost a race against another process filling the same entry — a later process resolving
// the same project over the same cache directory gets the project's real requirements, and an entry
// that exists in the cache is always complete.

var vStubTable = map[string]string{
	"os.Stat":       "vStat",
	"os.IsNotExist": "vIsNotExist",
	"os.MkdirAll":   "vMkdirAll",
	"os.MkdirTemp":  "vMkdirTemp",
	"os.RemoveAll":  "vRemoveAll",
	"os.Rename":     "vRename",
	"(*github.com/pgavlin/dawn/internal/mvs.Resolver).resolveProjectRevision": "vResolveRev",
	"github.com/pgavlin/dawn/internal/project.LoadConfigFile":                 "vLoadConfig",
}

type vErrT string

func (e vErrT) Error() string { return string(e) }

// ---- file system: path -> "dir" or a file's content tag ----

var (
	vFS     = map[string]string{"/": "dir", "/tmp": "dir"}
	vTmpSeq int
)

type vInfo struct{ name string }

func (i vInfo) Name() string       { return i.name }
func (i vInfo) Size() int64        { return 0 }
func (i vInfo) Mode() fs.FileMode  { return 0 }
func (i vInfo) ModTime() time.Time { return time.Time{} }
func (i vInfo) IsDir() bool        { return true }
func (i vInfo) Sys() any           { return nil }

func vIsNotExist(err error) bool { return err == fs.ErrNotExist }

func vStat(name string) (os.FileInfo, error) {
	if _, ok := vFS[name]; !ok {
		return nil, fs.ErrNotExist
	}
	return vInfo{name}, nil
}

func vMkdirAll(p string, perm os.FileMode) error {
	for i := 1; i <= len(p); i++ {
		if i == len(p) || p[i] == '/' {
			if _, ok := vFS[p[:i]]; !ok {
				vFS[p[:i]] = "dir"
			}
		}
	}
	return nil
}

func vMkdirTemp(dir, pattern string) (string, error) {
	vTmpSeq++
	name := "/tmp/dawn-fetch-" + string(rune('0'+vTmpSeq))
	vFS[name] = "dir"
	return name, nil
}

func vUnder(p, dir string) bool { return p == dir || strings.HasPrefix(p, dir+"/") }

func vRemoveAll(p string) error {
	for k := range vFS {
		if vUnder(k, p) {
			delete(vFS, k)
		}
	}
	return nil
}

// another process working on the same cache directory may complete the same entry at any moment
// before our rename (vRace)
var vRace bool

func vWriteComplete(dir string) {
	vMkdirAll(dir, 0)
	vFS[dir+"/.dawnconfig"] = "legacy"
	vFS[dir+"/dawn.toml"] = "full"
}

func vRename(oldpath, newpath string) error {
	if _, ok := vFS[oldpath]; !ok {
		return fs.ErrNotExist
	}
	if _, ok := vFS[newpath]; !ok && vRace && vNondetBool("other-process-filled-the-entry") {
		vWriteComplete(newpath)
		vReach("raced")
	}
	if _, ok := vFS[newpath]; ok {
		return &os.LinkError{Op: "rename", Old: oldpath, New: newpath, Err: fs.ErrExist}
	}
	moved := map[string]string{}
	for k, v := range vFS {
		if vUnder(k, oldpath) {
			moved[newpath+k[len(oldpath):]] = v
			delete(vFS, k)
		}
	}
	for k, v := range moved {
		vFS[k] = v
	}
	return nil
}

// ---- the repository ----

type vRepo struct{}
type vRev struct{}

func (vRev) ID() string                                                        { return "abcdefabcdef" }
func (vRev) PseudoID() string                                                  { return "abcdefabcdef" }
func (vRev) When() time.Time                                                   { return time.Time{} }
func (vRev) History() iter.Seq[vcs.Revision]                                   { return nil }
func (vRepo) Path() string                                                     { return "h.io/p" }
func (vRepo) DefaultRef(ctx context.Context) (string, error)                   { return "main", nil }
func (vRepo) Versions(ctx context.Context) ([]*vcs.Version, error)             { return nil, nil }
func (vRepo) ResolveRef(ctx context.Context, ref string) (string, error)       { return "abcdefabcdef", nil }
func (vRepo) GetRevision(ctx context.Context, id string) (vcs.Revision, error) { return vRev{}, nil }

// vFault: 0 none; 1 before the first file; 2 after the legacy config file; 3 in the middle of dawn.toml
var vFault int

func (vRepo) FetchRevision(ctx context.Context, projectPath string, revision vcs.Revision, destDir string) error {
	dir := destDir
	if projectPath != "" {
		dir = destDir + "/" + projectPath
	}
	vMkdirAll(dir, 0)
	if vFault == 1 {
		return vErrT("connection reset")
	}
	vFS[dir+"/.dawnconfig"] = "legacy"
	if vFault == 2 {
		return vErrT("connection reset")
	}
	if vFault == 3 {
		vFS[dir+"/dawn.toml"] = "truncated"
		return vErrT("connection reset")
	}
	vFS[dir+"/dawn.toml"] = "full"
	return nil
}

var vSub string

func vResolveRev(r *Resolver, ctx context.Context, p module.Version) (vcs.Repository, string, string, error) {
	return vRepo{}, vSub, "abcdefabcdef", nil
}

var vFullReqs = map[string]project.RequirementConfig{"a": {Path: "h.io/a", Version: "v1.1.0"}, "b": {Path: "h.io/b", Version: "v1.0.0"}}

func vLoadConfig(path string) (*project.Config, error) {
	switch vFS[path] {
	case "full":
		return &project.Config{Name: "p", Requirements: vFullReqs}, nil
	case "legacy": // the project's older configuration file: written before it gained requirement b
		return &project.Config{Name: "p", Requirements: map[string]project.RequirementConfig{"a": {Path: "h.io/a", Version: "v1.0.0"}}}, nil
	case "truncated":
		return nil, vErrT("toml: unexpected end of input")
	}
	return nil, fs.ErrNotExist
}

func vIsFull(s *mvsProject) bool {
	return s != nil && len(s.Requirements) == 2 &&
		s.Requirements[0] == module.Version{Path: "h.io/a", Version: "v1.1.0"} &&
		s.Requirements[1] == module.Version{Path: "h.io/b", Version: "v1.0.0"}
}

// VHarnessC10Fetch: sub=0 the project is the root of its repository, sub=1 it lies in a sub-directory;
// race=1 lets another process complete the entry before our rename.
func VHarnessC10Fetch() {
	if vParam("sub") == 1 {
		vSub = "tools/p"
	}
	vRace = vParam("race") == 1
	ctx := context.TODO()
	p := module.Version{Path: "h.io/p", Version: "v1.0.0"}
	entry := "/cache/h.io/p@v1.0.0"

	// first process: the fetch may fail part-way
	vFault = vChoose("fetch-fault", 4)
	r1 := NewResolver("/cache", nil, nil)
	s1, err1 := r1.resolveProject(ctx, p)
	if _, exists := vFS[entry]; exists {
		vAssert(vFS[entry+"/dawn.toml"] == "full", "download-cache-entry-is-complete-whenever-it-exists")
	}
	if err1 == nil {
		vAssert(vIsFull(s1), "resolved-requirements-are-the-projects")
		vReach("first-ok")
	} else {
		vAssert(vFault != 0, "fetch-without-fault-succeeds")
		vReach("first-failed")
	}
	for k := range vFS {
		vAssert(!strings.HasPrefix(k, "/tmp/dawn-fetch-"), "staging-directory-removed")
	}

	// a later process over the same cache directory, no fault
	vFault, vRace = 0, false
	r2 := NewResolver("/cache", nil, nil)
	s2, err2 := r2.resolveProject(ctx, p)
	vAssert(err2 == nil && vIsFull(s2), "answer-does-not-depend-on-the-state-of-the-download-cache")
	vReach("second-checked")
}

// VHarnessC10FetchTwin: reachability twin.
func VHarnessC10FetchTwin() {
	r := NewResolver("/cache", nil, nil)
	if s, err := r.resolveProject(context.TODO(), module.Version{Path: "h.io/p", Version: "v1.0.0"}); err == nil && vIsFull(s) {
		vAssert(false, "twin")
	}
}
