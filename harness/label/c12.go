package label

// C12 (labels): harnesses over the public API of package label.
// Inputs: every byte string of length n = vParam("n"), all 256 byte values per position.

func vSymString(n int, tag string) string {
	b := make([]byte, n)
	for i := range b {
		b[i] = vNondetU8(tag)
	}
	return string(b)
}

func vRoundTrips(l *Label, tag string) {
	p := l.String()
	l2, err2 := Parse(p)
	vAssert(err2 == nil, tag+"-reparse-ok")
	if err2 == nil {
		vAssert(*l2 == *l, tag+"-reparse-equal")
		// printing is canonical: the re-parsed label prints the same text
		vAssert(l2.String() == p, tag+"-print-stable")
	}
}

// VHarnessC12Parse: Parse never panics (an escaping panic is reported by the engine); every
// accepted label that has a name or has no kind prints to a string that re-parses to the identical
// label.
func VHarnessC12Parse() {
	s := vSymString(vParam("n"), "s")
	l, err := Parse(s)
	if err != nil {
		vAssert(l == nil, "error-with-label")
		vReach("reject")
		return
	}
	vAssert(l != nil, "nil-label-without-error")
	vReach("accept")
	if l.Name != "" || l.Kind == "" {
		vReach("roundtrip")
		vRoundTrips(l, "parse")
	} else {
		vReach("kind-without-name")
	}
}

// VHarnessC12Twin is the reachability twin: the same harness ending in assert(false) on the
// round-trip arm must be reported.
func VHarnessC12Twin() {
	s := vSymString(vParam("n"), "s")
	l, err := Parse(s)
	if err != nil {
		return
	}
	if l.Name != "" || l.Kind == "" {
		vAssert(false, "twin")
	}
}

// VHarnessC12Relative: resolving an accepted relative label against a clean absolute package either
// fails or gives a label for which the round trip holds as well.
func VHarnessC12Relative() {
	pkgRaw := "//" + vSymString(vParam("p"), "pkg")
	pkg, err := Clean(pkgRaw)
	if err != nil {
		vReach("pkg-reject")
		return
	}
	vAssume(len(pkg) >= 2 && pkg[0] == '/' && pkg[1] == '/')
	s := vSymString(vParam("n"), "s")
	l, err := Parse(s)
	if err != nil {
		return
	}
	if !(l.Name != "" || l.Kind == "") {
		return
	}
	r, err := l.RelativeTo(pkg)
	if err != nil {
		vReach("rel-reject")
		return
	}
	vReach("rel-accept")
	vAssert(r.IsAbs(), "relative-result-absolute")
	vAssert(r.Kind == l.Kind && r.Name == l.Name && r.Project == l.Project, "relative-keeps-fields")
	vRoundTrips(r, "relative")
}

// VHarnessC12New: labels built by New from four strings either are rejected or round-trip.
func VHarnessC12New() {
	kind := vSymString(vParam("k"), "kind")
	pkg := vSymString(vParam("p"), "pkg")
	name := vSymString(vParam("m"), "name")
	l, err := New(kind, "", pkg, name)
	if err != nil {
		vReach("reject")
		return
	}
	vReach("accept")
	if l.Name != "" || l.Kind == "" {
		vRoundTrips(l, "new")
	}
}
