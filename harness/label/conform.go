package label

// Translator validation: the repository's own label test inputs (and some more) are pushed through
// the engine with concrete values; the same harness runs natively; every observation must agree.

var vConformLabels = []string{
	"", ":target", "pkg:target", "kind:pkg:target", "pkg", "//abs-pkg", "//abs-pkg:target", "kind://abs-pkg:target",
	"//abs-pkg/with/@symbol", "//abs-pkg/with/@symbol:target", "kind://abs-pkg/with/@symbol:target", "rel-pkg/path",
	"rel-pkg/path:target", "kind:rel-pkg/path", "kind:rel-pkg/path:target", "project//pkg/path", "project//pkg/path:target",
	"kind:project//pkg/path:target", "project@v2//pkg/path", "project@v2//pkg/path:target", "kind:project@v2//pkg/path:target",
	"host/project@v2//pkg/path", "host/project@v2//pkg/path:target", "kind:host/project@v2//pkg/path:target", "kind:module@//pkg/path",
	"kind:invalid:project//path", "kind:pkg:with:colons:target", "./pkg", "pkg/..", "//pkg", "kind://abs-pkg",
	"..", "a/../..", "//a/./b//c/", "a:b/c", "//:x", "k:", ":", "//", "/", "a//b", "//a/../../b", ".:n", "a/.:n",
}

func VConformLabel() {
	for _, s := range vConformLabels {
		l, err := Parse(s)
		if err != nil {
			vNote("parse " + s + " -> error: " + err.Error())
			continue
		}
		vNote("parse " + s + " -> kind=" + l.Kind + " project=" + l.Project + " package=" + l.Package + " name=" + l.Name + " string=" + l.String())
		if r, err := l.RelativeTo("//base/pkg"); err == nil {
			vNote("relative " + s + " -> " + r.String())
		} else {
			vNote("relative " + s + " -> error: " + err.Error())
		}
	}
	for _, p := range []string{"", ".", "a/b", "//a/b/", "a//b", "../x", "//..", "a/./b", "a/../b", "//a/../../b"} {
		c, err := Clean(p)
		if err != nil {
			vNote("clean " + p + " -> error: " + err.Error())
		} else {
			vNote("clean " + p + " -> " + c)
		}
		j, err := Join("//x/y", p)
		if err != nil {
			vNote("join " + p + " -> error: " + err.Error())
		} else {
			vNote("join " + p + " -> " + j)
		}
	}
}
