package dawn

import (
	"strings"

	"github.com/pgavlin/dawn/label"
)

// C12 (confinement): source paths always resolve to locations inside the project root.

// vEscapes is an oracle written independently of path.Clean: walk the components, never stepping
// above the root.
func vEscapes(pkg, p string) bool {
	var comps []string
	if !strings.HasPrefix(p, "/") {
		comps = append(comps, strings.Split(pkg[2:], "/")...)
	}
	comps = append(comps, strings.Split(p, "/")...)
	depth := 0
	for _, c := range comps {
		switch c {
		case "", ".":
		case "..":
			depth--
			if depth < 0 {
				if strings.HasPrefix(p, "/") {
					depth = 0 // a rooted path cannot go above its root
				} else {
					return true
				}
			}
		default:
			depth++
		}
	}
	return false
}

func vHasDotDot(q string) bool {
	return q == ".." || strings.HasPrefix(q, "../") || strings.Contains(q, "/../") || strings.HasSuffix(q, "/..")
}

var vPkgs = []string{"//", "//a", "//a/b", "//.a"}

// VHarnessC12Confine: a source path is accepted only if it stays inside the project root; the
// label built from it names a file below the root, and a path that escapes is rejected.
func VHarnessC12Confine() {
	pkg := vPkgs[vParam("pkg")]
	n := vParam("n")
	b := make([]byte, n)
	for i := range b {
		b[i] = vNondetU8("p")
	}
	p := string(b)
	q, err := repoSourcePath(pkg, p)
	if err != nil {
		vReach("rejected")
		// rejection is only for the empty path or an escaping one
		vAssert(p == "" || vEscapes(pkg, p), "rejects-only-escaping-paths")
		return
	}
	vReach("accepted")
	vAssert(!vEscapes(pkg, p), "accepted-path-does-not-escape")
	vAssert(!vHasDotDot(q), "result-has-no-dotdot")
	l, err := sourceLabel(pkg, p)
	if err == nil {
		vAssert(l.Kind == "source" && strings.HasPrefix(l.Package, "//") && !vHasDotDot(l.Package[2:]), "label-package-inside-root")
		vAssert(!strings.Contains(l.Name, "/") && l.Name != "..", "label-name-is-a-file-name")
		// the label is a stable identity: print and re-parse give it back
		if l.Name != "" {
			l2, err2 := label.Parse(l.String())
			vAssert(err2 == nil && *l2 == *l, "source-label-roundtrip")
		}
		vReach("labelled")
	} else {
		vReach("label-rejected")
	}
}

// VHarnessC12ConfineTwin: reachability twin.
func VHarnessC12ConfineTwin() {
	pkg := vPkgs[vParam("pkg")]
	b := make([]byte, vParam("n"))
	for i := range b {
		b[i] = vNondetU8("p")
	}
	if _, err := repoSourcePath(pkg, string(b)); err == nil {
		vAssert(false, "twin")
	}
}
