package dawn

import (
	"strings"

	"go.starlark.net/starlark"
)

// C16 (rebuild reason): the reason shown for a target names exactly the parts of its environment
// that differ.

var vKeySets = [][]int{{0, 1, 2, 3}, {3, 4, 5, 6}, {5, 6, 7, 8}, {0, 4, 8}, {1, 2, 7}, {0}, {8}, {2, 6}}

// VHarnessC16Env: old and new environments over the nine environment keys; under each key the value
// is absent, or one of two symbolic small values. diffEnv's reason mentions key k iff the values
// under k differ, it reports "equal" iff nothing differs, and it never panics.
func VHarnessC16Env() {
	var keys []starlark.String
	for _, i := range vKeySets[vParam("set")] {
		keys = append(keys, functionEnvKeys[i])
	}
	mk := func(tag string) (*starlark.Dict, []int) {
		d := starlark.NewDict(len(keys))
		vals := make([]int, len(keys))
		for i, k := range keys {
			b := vNondetU8(tag)
			vAssume(b < 3)
			vals[i] = int(b)
			if b != 0 {
				d.SetKey(k, starlark.Tuple{starlark.MakeInt(int(b))})
			}
		}
		return d, vals
	}
	o, vo := mk("old")
	n, vn := mk("new")
	f := &function{oldEnv: o, newEnv: n}
	eq, reason, d, err := f.diffEnv()
	vAssert(err == nil, "env-no-error")
	differs := false
	for i := range keys {
		if vo[i] != vn[i] {
			differs = true
		}
	}
	vAssert(eq == !differs, "env-equal-iff-nothing-differs")
	if eq {
		vAssert(d == nil, "env-equal-has-no-diff")
		vReach("equal")
		return
	}
	vAssert(d != nil, "env-unequal-has-diff")
	for i, k := range keys {
		vAssert(strings.Contains(reason, string(k)) == (vo[i] != vn[i]), "env-reason-names-exactly-the-differing-parts")
	}
	for _, k := range functionEnvKeys {
		in := false
		for _, kk := range keys {
			if kk == k {
				in = true
			}
		}
		if !in {
			vAssert(!strings.Contains(reason, string(k)), "env-reason-names-no-other-part")
		}
	}
	vAssert(strings.HasSuffix(reason, " changed"), "env-reason-form")
	vReach("differs")
}

// VHarnessC16EnvNever: a target that never ran says so.
func VHarnessC16EnvNever() {
	f := &function{oldEnv: starlark.None, newEnv: starlark.NewDict(0)}
	eq, reason, _, err := f.diffEnv()
	vAssert(err == nil && !eq && reason == "target has never been run", "env-never-run")
	vReach("never")
}
