package dawn

import "regexp"

// Model of regexp.Compile / (*Regexp).MatchString for the regular-expression subset CompileGlobs can
// emit: alternation, concatenation, capturing and non-capturing groups, ^ and $, literals, \c, '.',
// '*' applied to '.' or to a bracket class, and simple bracket classes. Semantics follow the RE2
// syntax document: alternation binds loosest, MatchString is an unanchored search, '.' excludes
// '\n'. The subject string's bytes may be symbolic: the matcher is a dynamic program over 0/1 bytes
// built with vB2I, so it does not fork on the subject.

var vStubTable = map[string]string{
	"regexp.Compile":               "vRegexpCompile",
	"(*regexp.Regexp).MatchString": "vRegexpMatch",
	"path/filepath.WalkDir":        "vWalkDir17",
}

type vErr string

func (e vErr) Error() string { return string(e) }

// node kinds
const (
	vnLit   = iota // c
	vnAny          // .
	vnClass        // set, neg
	vnStar         // sub[0]*
	vnCat          // sub...
	vnAlt          // sub...
	vnBegin        // ^
	vnEnd          // $
	vnEmpty
)

type vNode struct {
	kind int
	c    byte
	set  []byte
	neg  bool
	sub  []*vNode
}

type vParser struct {
	s   string
	i   int
	err bool
}

// several expressions are alive at once here (include and exclude): one syntax tree per Regexp
var vCompiled = map[*regexp.Regexp]*vNode{}

func vRegexpCompile(expr string) (*regexp.Regexp, error) {
	p := &vParser{s: expr}
	n := p.alt()
	if p.err || p.i != len(expr) {
		return nil, vErr("error parsing regexp")
	}
	re := new(regexp.Regexp)
	vCompiled[re] = n
	return re, nil
}

func (p *vParser) alt() *vNode {
	n := &vNode{kind: vnAlt}
	n.sub = append(n.sub, p.cat())
	for !p.err && p.i < len(p.s) && p.s[p.i] == '|' {
		p.i++
		n.sub = append(n.sub, p.cat())
	}
	if len(n.sub) == 1 {
		return n.sub[0]
	}
	return n
}

func (p *vParser) cat() *vNode {
	n := &vNode{kind: vnCat}
	for !p.err && p.i < len(p.s) && p.s[p.i] != '|' && p.s[p.i] != ')' {
		a := p.atom()
		if p.err {
			return n
		}
		for p.i < len(p.s) {
			switch c := p.s[p.i]; {
			case c == '*':
				p.i++
				a = &vNode{kind: vnStar, sub: []*vNode{a}}
				continue
			case c == '+':
				p.i++
				a = &vNode{kind: vnCat, sub: []*vNode{a, {kind: vnStar, sub: []*vNode{a}}}}
				continue
			case c == '?':
				p.i++
				a = &vNode{kind: vnAlt, sub: []*vNode{a, {kind: vnEmpty}}}
				continue
			case c == '{':
				// {n}, {n,} or {n,m} is a repetition; any other use of '{' is a literal (RE2)
				if lo, hi, end, ok := p.repeat(); ok {
					p.i = end
					a = vRepeat(a, lo, hi)
					continue
				}
			}
			break
		}
		n.sub = append(n.sub, a)
	}
	return n
}

func (p *vParser) atom() *vNode {
	switch b := p.s[p.i]; b {
	case '(':
		p.i++
		if p.i+1 < len(p.s) && p.s[p.i] == '?' && p.s[p.i+1] == ':' {
			p.i += 2
		}
		n := p.alt()
		if p.err || p.i >= len(p.s) || p.s[p.i] != ')' {
			p.err = true
			return nil
		}
		p.i++
		return n
	case '^':
		p.i++
		return &vNode{kind: vnBegin}
	case '$':
		p.i++
		return &vNode{kind: vnEnd}
	case '.':
		p.i++
		return &vNode{kind: vnAny}
	case '\\':
		if p.i+1 >= len(p.s) {
			p.err = true
			return nil
		}
		c := p.s[p.i+1]
		p.i += 2
		return &vNode{kind: vnLit, c: c}
	case '[':
		p.i++
		n := &vNode{kind: vnClass}
		if p.i < len(p.s) && p.s[p.i] == '^' {
			n.neg = true
			p.i++
		}
		first := true
		for {
			if p.i >= len(p.s) {
				p.err = true // missing closing ]
				return nil
			}
			c := p.s[p.i]
			if c == ']' && !first {
				p.i++
				return n
			}
			first = false
			if c == '\\' && p.i+1 < len(p.s) {
				p.i++
				c = p.s[p.i]
			}
			n.set = append(n.set, c)
			p.i++
		}
	case '*', '+', '?':
		// a repetition operator with nothing to repeat
		p.err = true
		return nil
	case '{':
		if _, _, _, ok := p.repeat(); ok {
			p.err = true // a repetition with nothing to repeat
			return nil
		}
		p.i++
		return &vNode{kind: vnLit, c: b}
	default:
		p.i++
		return &vNode{kind: vnLit, c: b}
	}
}

// repeat parses {n}, {n,} or {n,m} at p.i (hi = -1: unbounded).
func (p *vParser) repeat() (lo, hi, end int, ok bool) {
	i := p.i + 1
	num := func() (int, bool) {
		v, any := 0, false
		for i < len(p.s) && p.s[i] >= '0' && p.s[i] <= '9' {
			v = v*10 + int(p.s[i]-'0')
			i++
			any = true
		}
		return v, any
	}
	lo, ok = num()
	if !ok || i >= len(p.s) {
		return 0, 0, 0, false
	}
	hi = lo
	if p.s[i] == ',' {
		i++
		hi = -1
		if v, any := num(); any {
			hi = v
		}
	}
	if i >= len(p.s) || p.s[i] != '}' || (hi >= 0 && hi < lo) || lo > 8 {
		return 0, 0, 0, false
	}
	return lo, hi, i + 1, true
}

func vRepeat(a *vNode, lo, hi int) *vNode {
	n := &vNode{kind: vnCat}
	for i := 0; i < lo; i++ {
		n.sub = append(n.sub, a)
	}
	if hi < 0 {
		n.sub = append(n.sub, &vNode{kind: vnStar, sub: []*vNode{a}})
	}
	for i := lo; i < hi; i++ {
		n.sub = append(n.sub, &vNode{kind: vnAlt, sub: []*vNode{a, {kind: vnEmpty}}})
	}
	return n
}

// vRel is a relation on positions 0..n: r[i][j] = 1 iff the node matches s[i:j].
type vRel [][]uint8

func vNewRel(n int) vRel {
	r := make(vRel, n+1)
	for i := range r {
		r[i] = make([]uint8, n+1)
	}
	return r
}

func vCompose(a, b vRel, n int) vRel {
	r := vNewRel(n)
	for i := 0; i <= n; i++ {
		for j := i; j <= n; j++ {
			var v uint8
			for k := i; k <= j; k++ {
				v |= a[i][k] & b[k][j]
			}
			r[i][j] = v
		}
	}
	return r
}

func vEval(nd *vNode, s string) vRel {
	n := len(s)
	r := vNewRel(n)
	switch nd.kind {
	case vnLit:
		for i := 0; i < n; i++ {
			r[i][i+1] = vB2I(s[i] == nd.c)
		}
	case vnAny:
		for i := 0; i < n; i++ {
			r[i][i+1] = vB2I(s[i] != '\n')
		}
	case vnClass:
		for i := 0; i < n; i++ {
			var in uint8
			for _, c := range nd.set {
				in |= vB2I(s[i] == c)
			}
			if nd.neg {
				in ^= 1
			}
			r[i][i+1] = in
		}
	case vnBegin:
		r[0][0] = 1
	case vnEnd:
		r[n][n] = 1
	case vnEmpty:
		for i := 0; i <= n; i++ {
			r[i][i] = 1
		}
	case vnCat:
		for i := 0; i <= n; i++ {
			r[i][i] = 1
		}
		for _, sub := range nd.sub {
			r = vCompose(r, vEval(sub, s), n)
		}
	case vnAlt:
		for _, sub := range nd.sub {
			x := vEval(sub, s)
			for i := 0; i <= n; i++ {
				for j := 0; j <= n; j++ {
					r[i][j] |= x[i][j]
				}
			}
		}
	case vnStar:
		x := vEval(nd.sub[0], s)
		for i := 0; i <= n; i++ {
			r[i][i] = 1
		}
		for it := 0; it < n; it++ { // at most n non-empty iterations
			y := vCompose(r, x, n)
			for i := 0; i <= n; i++ {
				for j := 0; j <= n; j++ {
					r[i][j] |= y[i][j]
				}
			}
		}
	}
	return r
}

// vRegexpMatch: unanchored search — some substring s[i:j] matches.
func vRegexpMatch(re *regexp.Regexp, s string) bool {
	r := vEval(vCompiled[re], s)
	var res uint8
	for i := range r {
		for j := range r[i] {
			res |= r[i][j]
		}
	}
	return res == 1
}
