package dawn

import (
	"io/fs"
	"time"

	"github.com/pgavlin/dawn/util"
	"go.starlark.net/starlark"
)

// C17 (glob() builtin): glob(include, exclude) returns exactly the files below the calling module's
// directory whose relative path is matched by some include pattern and by no exclude pattern — the
// real Project.builtin_glob over a modelled directory tree, patterns symbolic.

// ---- reference semantics (as in harness/util/c17.go, written from the property's sentence) ----

type vAtom struct {
	kind byte
	c    byte
}

func vGlobAtoms(g string) ([]vAtom, bool) {
	var atoms []vAtom
	for i := 0; i < len(g); i++ {
		switch b := g[i]; {
		case b == '\\':
			if i+1 >= len(g) {
				return nil, false
			}
			c := g[i+1]
			if c != '\\' && c != '*' && c != '?' && c != '[' && c != ']' {
				return nil, false
			}
			atoms = append(atoms, vAtom{'c', c})
			i++
		case b == '*':
			if i+1 < len(g) && g[i+1] == '*' {
				atoms = append(atoms, vAtom{'A', 0})
				i++
			} else {
				atoms = append(atoms, vAtom{'N', 0})
			}
		case b == '?':
			atoms = append(atoms, vAtom{'?', 0})
		default:
			atoms = append(atoms, vAtom{'c', b})
		}
	}
	return atoms, true
}

func vRefMatch(atoms []vAtom, s string) uint8 {
	n := len(s)
	cur := make([]uint8, n+1)
	cur[n] = 1
	for j := len(atoms) - 1; j >= 0; j-- {
		next := make([]uint8, n+1)
		a := atoms[j]
		switch a.kind {
		case 'c':
			for p := 0; p < n; p++ {
				next[p] = vB2I(s[p] == a.c) & cur[p+1]
			}
		case '?':
			for p := 0; p < n; p++ {
				next[p] = cur[p+1]
			}
		case 'A', 'N':
			for p := n; p >= 0; p-- {
				next[p] = cur[p]
				if p < n {
					ok := uint8(1)
					if a.kind == 'N' {
						ok = vB2I(s[p] != '/')
					}
					next[p] |= ok & next[p+1]
				}
			}
		}
		cur = next
	}
	return cur[0]
}

// ---- the directory tree: /p holds BUILD.dawn, a, d/a, d/e/b (walked in lexical order) ----

type vEnt struct {
	path string
	dir  bool
}

var vTree17 = []vEnt{
	{"/p", true}, {"/p/BUILD.dawn", false}, {"/p/a", false}, {"/p/d", true}, {"/p/d/a", false}, {"/p/d/e", true}, {"/p/d/e/b", false},
}

type vDirEnt17 struct{ e vEnt }

func (d vDirEnt17) Name() string {
	n := d.e.path
	for i := len(n) - 1; i >= 0; i-- {
		if n[i] == '/' {
			return n[i+1:]
		}
	}
	return n
}
func (d vDirEnt17) IsDir() bool                { return d.e.dir }
func (d vDirEnt17) Type() fs.FileMode          { return 0 }
func (d vDirEnt17) Info() (fs.FileInfo, error) { return d, nil }
func (d vDirEnt17) Size() int64                { return 0 }
func (d vDirEnt17) Mode() fs.FileMode          { return 0 }
func (d vDirEnt17) ModTime() time.Time         { return time.Time{} }
func (d vDirEnt17) Sys() any                   { return nil }

// vWalkDir17: filepath.WalkDir's contract — lexical order, a directory before its contents,
// fs.SkipDir from a directory's callback skips its contents, any other error stops the walk.
func vWalkDir17(root string, fn fs.WalkDirFunc) error {
	skip := ""
	for _, e := range vTree17 {
		if len(e.path) < len(root) || e.path[:len(root)] != root {
			continue
		}
		if skip != "" && len(e.path) > len(skip) && e.path[:len(skip)+1] == skip+"/" {
			continue
		}
		err := fn(e.path, vDirEnt17{e}, nil)
		if err == fs.SkipDir {
			if e.dir {
				skip = e.path
				continue
			}
			return nil // SkipDir from a file: the rest of its directory is skipped (not exercised)
		}
		if err != nil {
			return err
		}
	}
	return nil
}

func vPattern17(n int, tag string) string {
	g := make([]byte, n)
	for i := range g {
		g[i] = vNondetU8(tag)
		x := g[i]
		in := vB2I(x == 'a') | vB2I(x == 'd') | vB2I(x == '*') | vB2I(x == '?') | vB2I(x == '\\') | vB2I(x == '/') | vB2I(x == '.')
		vAssume(in == 1) // one term, no case split
	}
	return string(g)
}

// VHarnessC17Glob: include = one pattern of gi bytes, exclude = none (ge < 0) or one pattern of ge bytes.
func VHarnessC17Glob() {
	include := util.StringList{vPattern17(vParam("gi"), "inc")}
	var exclude util.StringList
	if ge := vParam("ge"); ge >= 0 {
		exclude = util.StringList{vPattern17(ge, "exc")}
	}
	incAtoms, incOK := vGlobAtoms(include[0])
	var excAtoms []vAtom
	excOK := true
	if len(exclude) == 1 {
		excAtoms, excOK = vGlobAtoms(exclude[0])
	}
	thread := &starlark.Thread{}
	thread.SetLocal("module", &module{path: "/p/BUILD.dawn"})
	proj := &Project{}
	res, err := proj.builtin_glob(thread, starlark.NewBuiltin("glob", nil), include, exclude)
	if !incOK || !excOK {
		vAssert(err != nil, "glob-invalid-pattern-rejected")
		vReach("invalid")
		return
	}
	vAssert(err == nil, "glob-valid-patterns-accepted")
	if err != nil {
		return
	}
	list := res.(*starlark.List)
	got := map[string]int{}
	for i := 0; i < list.Len(); i++ {
		got[string(list.Index(i).(starlark.String))]++
	}
	files := 0
	for _, e := range vTree17 {
		if e.dir {
			continue
		}
		rel := e.path[len("/p/"):]
		want := vRefMatch(incAtoms, rel)
		if len(exclude) == 1 {
			want &= vRefMatch(excAtoms, rel) ^ 1
		}
		if want == 1 {
			vAssert(got[rel] == 1, "glob-returns-every-included-file-not-excluded-once")
			files++
		} else {
			vAssert(got[rel] == 0, "glob-returns-no-file-outside-include-minus-exclude")
		}
	}
	vAssert(list.Len() == files, "glob-returns-only-files-of-the-tree")
	if files > 0 {
		vReach("selected")
	}
	vReach("compared")
}
