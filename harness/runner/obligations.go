package runner

import (
	"sync"
	"sync/atomic"
)

// C04 / C05 / C09: thread-modular rely/guarantee obligations on the real runner code.
//
// The engine executes ONE thread. At every point where state shared with other threads can change —
// acquiring a mutex, waking from Cond.Wait, an atomic load, a sync.Map operation — a hook below
// plays the other threads by overwriting that state with fresh symbolic values constrained only by
// the RELY (what every other thread guarantees). At every release the hooks assert this thread's
// GUARANTEE. `go f()` is recorded, not run: the callee has its own obligation. gate.enter/exit are
// replaced by counters in the obligations that are about slot discipline (O-RUN, O-EVAL) and are
// analysed for real in O-GATE.

var (
	vMode   string
	vEvents []string

	// gate ghost state
	vGate      *gate
	vLimit     int
	vMine      int // slots this thread holds before the call under analysis
	vLastHavoc int
	vDelta     int // net change this thread made to capacity
	vGateWaits int
	vSignals   int

	// slot discipline ghost state (enter/exit replaced by counters)
	vHolds  int
	vEnters int
	vExits  int

	// target ghost state
	vT        *target
	vSpawns   int
	vAtLock   int // status of vT as this thread saw it when it acquired vT.m (after interference)
	vWakes    int
	vFinalSt  int
	vFinalErr error

	// EvaluateTargets ghost state
	vRoot     *target
	vDeps     []*target
	vFinal    = map[*target]int{}
	vCyclic   bool // some dependency's published wait set leads back to the root
	vOtherSet []*target
)

type vErrT string

func (e vErrT) Error() string { return string(e) }

func vLog(e string) { vEvents = append(vEvents, e) }

func vIndex(ev string) int {
	for i, e := range vEvents {
		if e == ev {
			return i
		}
	}
	return -1
}

func vCount(ev string) int {
	n := 0
	for _, e := range vEvents {
		if e == ev {
			n++
		}
	}
	return n
}

// ---------------------------------------------------------------- hooks

func vOnGo(name string) {
	vSpawns++
	vLog("go")
	vAssert(vHeld() == 0, "O-LOCKS: goroutine started while holding a mutex")
}

func vOnAcquire(m *sync.Mutex) {
	// O-LOCKS: a thread never blocks on a second mutex while holding one
	vAssert(vHeld() == 1, "O-LOCKS: mutex acquired while another is held")
	switch {
	case vGate != nil && m == &vGate.m && (vMode == "gate-enter" || vMode == "gate-exit"):
		// rely (gate): other threads enter and exit, keeping 0 <= capacity <= limit - holders
		c := int(vNondetU8("capacity"))
		vAssume(c <= vLimit-vMine+vDelta)
		vGate.capacity = c
		vLastHavoc = c
	case vT != nil && m == &vT.m && vMode == "start":
		// rely (target): other threads move the status only idle -> running -> final
		if vT.status == statusIdle && vNondetBool("other-thread-started-it") {
			vT.status = statusRunning
		}
		vAtLock = vT.status
	case vT != nil && m == &vT.m && vMode == "wait":
		vAtLock = vT.status
	}
}

func vOnRelease(m *sync.Mutex) {
	switch {
	case vGate != nil && m == &vGate.m && (vMode == "gate-enter" || vMode == "gate-exit"):
		// guarantee (gate): the invariant holds whenever the lock is released
		vDelta += vGate.capacity - vLastHavoc
		vAssert(vGate.capacity >= 0, "O-GATE: capacity negative")
		vAssert(vGate.capacity <= vLimit-vMine+vDelta, "O-GATE: capacity exceeds limit minus holders")
	case vT != nil && m == &vT.m && vMode == "run":
		vLog("unlock")
	}
}

func vOnWait(c *sync.Cond) {
	switch {
	case vGate != nil && c == vGate.cond:
		vGateWaits++
		vAssume(vGateWaits <= 2) // unwinding bound: two wake-ups
		vReach("gate-waited")
	case vMode == "wait" || vMode == "runapi":
		vWakes++
		vAssume(vWakes <= 2)
		vReach("target-waited")
		// wake rely: a target's condition is broadcast only after run() stored a final status and
		// error under the lock (O-RUN's guarantee); Cond.Wait has no spurious wake-ups
		vT.status, vT.err = vFinalSt, vFinalErr
	case vMode == "eval" || vMode == "check":
		vLog("block")
		vAssert(vHolds == 0, "O-EVAL: slot held while blocked on a dependency")
		for _, d := range vDeps {
			if d.c == c {
				d.status = vFinal[d]
				if d.status == statusFailed {
					d.err = vErrT("dependency failed: " + d.label)
				} else {
					d.err = nil
				}
				d.target = vTargetOf(d)
			}
		}
	}
}

func vOnSignal(c *sync.Cond) {
	vSignals++
	if vGate != nil && c == vGate.cond {
		vLog("signal")
	}
}

func vOnBroadcast(c *sync.Cond) {
	if vMode == "run" && c == vT.c {
		vLog("broadcast")
		vAssert(vT.status == statusSucceeded || vT.status == statusFailed, "O-RUN: broadcast before the final status is stored")
	}
}

func vOnAtomicStore(p *atomic.Pointer[[]*target]) {
	if vMode != "eval" || p != &vRoot.waiting {
		return
	}
	if cur := p.Load(); cur != nil {
		vLog("publish")
		same := len(*cur) == len(vDeps)
		if same {
			for i := range vDeps {
				same = same && (*cur)[i] == vDeps[i]
			}
		}
		vAssert(same, "O-EVAL: published wait set is not exactly the requested dependencies")
	} else {
		vLog("clear")
	}
}

// vOnAtomic: another thread's wait set is about to be read. Rely: a running target may have
// published any wait set by now (it runs concurrently from the moment it is started).
func vOnAtomic(p *atomic.Pointer[[]*target]) {
	if vMode != "eval" || p == &vRoot.waiting {
		return
	}
	for _, d := range vDeps {
		if p == &d.waiting {
			vLog("read:" + d.label)
			switch vChoose("published-by-"+d.label, 3) {
			case 0:
				p.Store(nil)
			case 1:
				s := []*target{vRoot}
				p.Store(&s)
				vCyclic = true
			default:
				s := vOtherSet
				p.Store(&s)
			}
			return // the same dependency may be requested twice: one read, one interference
		}
	}
}

func vEnterStub(g *gate) {
	vAssert(vHeld() == 0, "O-LOCKS: gate entered while holding a mutex")
	vEnters++
	vHolds++
	vLog("enter")
}

func vExitStub(g *gate) {
	vAssert(vHolds >= 1, "O-SLOTS: slot released that is not held")
	vExits++
	vHolds--
	vLog("exit")
}

var vStubTableFor = map[string]map[string]string{
	"VHarnessRun": {
		"(*github.com/pgavlin/dawn/runner.gate).enter": "vEnterStub",
		"(*github.com/pgavlin/dawn/runner.gate).exit":  "vExitStub",
	},
	"VHarnessEval": {
		"(*github.com/pgavlin/dawn/runner.gate).enter": "vEnterStub",
		"(*github.com/pgavlin/dawn/runner.gate).exit":  "vExitStub",
	},
	"VHarnessCheck": {
		"(*github.com/pgavlin/dawn/runner.gate).enter": "vEnterStub",
		"(*github.com/pgavlin/dawn/runner.gate).exit":  "vExitStub",
	},
	"VHarnessRunAPI": {
		"(*github.com/pgavlin/dawn/runner.gate).enter": "vEnterStub",
		"(*github.com/pgavlin/dawn/runner.gate).exit":  "vExitStub",
	},
}

// ---------------------------------------------------------------- O-GATE (C09)

// VHarnessGateEnter: from any gate state satisfying 0 <= capacity <= limit - holders, with other
// threads entering and exiting at every acquisition and wake-up, enter() keeps the invariant and
// takes exactly one slot.
func VHarnessGateEnter() {
	vMode = "gate-enter"
	vLimit = int(vNondetU8("limit"))
	vAssume(vLimit >= 1 && vLimit <= vParam("maxlimit"))
	vGate = newGate(vLimit)
	vMine = 0
	vGate.enter()
	vAssert(vDelta == -1, "O-GATE: enter takes exactly one slot")
	vAssert(vHeld() == 0, "O-LOCKS: mutex still held on return")
	vReach("entered")
}

// VHarnessGateExit: exit() gives back exactly one slot and signals after the increment, so a parked
// enter() is woken whenever capacity becomes positive.
func VHarnessGateExit() {
	vMode = "gate-exit"
	vLimit = int(vNondetU8("limit"))
	vAssume(vLimit >= 1 && vLimit <= vParam("maxlimit"))
	vGate = newGate(vLimit)
	vMine = 1
	vGate.exit()
	vAssert(vDelta == 1, "O-GATE: exit returns exactly one slot")
	vAssert(vSignals >= 1, "O-GATE: exit signals on every release")
	vAssert(vHeld() == 0, "O-LOCKS: mutex still held on return")
	vReach("exited")
}

// ---------------------------------------------------------------- O-START, O-WAIT (C04)

// VHarnessStart: from any status, start() records exactly one `go run` iff the status it saw under
// the lock was idle, sets running before releasing, and otherwise changes nothing.
func VHarnessStart() {
	vMode = "start"
	r := &runner{gate: newGate(1)}
	t := newTarget("a")
	vT = t
	pre := int(vNondetU8("status"))
	vAssume(pre <= statusFailed)
	t.status = pre
	t.start(r)
	if vAtLock == statusIdle {
		vAssert(vSpawns == 1, "O-START: an idle target is started exactly once")
		vAssert(t.status == statusRunning, "O-START: status is running before the lock is released")
		vReach("spawned")
	} else {
		vAssert(vSpawns == 0, "O-START: a target that is not idle is never started again")
		vAssert(t.status == vAtLock, "O-START: a non-idle target is left unchanged")
		vReach("not-spawned")
	}
	vAssert(vHeld() == 0, "O-LOCKS: mutex still held on return")
}

// VHarnessWait: wait() returns only once the status is final and returns the error stored then.
func VHarnessWait() {
	vMode = "wait"
	t := newTarget("a")
	vT = t
	pre := int(vNondetU8("status"))
	vAssume(pre <= statusFailed)
	t.status = pre
	if pre == statusFailed {
		t.err = vErrT("failed earlier")
	}
	vFinalSt = statusSucceeded
	if vNondetBool("fails") {
		vFinalSt, vFinalErr = statusFailed, vErrT("failed")
	}
	vAssume(pre != statusIdle) // wait is only called on started targets (O-EVAL, O-RUNAPI start first)
	err := t.wait()
	vAssert(t.status == statusSucceeded || t.status == statusFailed, "O-WAIT: returned while still running")
	vAssert(err == t.err, "O-WAIT: returned error is not the stored outcome")
	vAssert((t.status == statusFailed) == (err != nil), "O-WAIT: outcome and status disagree")
	vAssert(vHeld() == 0, "O-LOCKS: mutex still held on return")
	vReach("waited")
}

// ---------------------------------------------------------------- O-RUN (C04, C09)

type vLoader struct{ fail bool }

type vTarget struct {
	label string
	fail  bool
}

func (l *vLoader) LoadTarget(label string) (Target, error) {
	vLog("load")
	vAssert(vHolds == 1, "O-SLOTS: target loaded without holding a slot")
	vAssert(vHeld() == 0, "O-LOCKS: target loaded while holding a mutex")
	if l.fail {
		return nil, vErrT("load failed")
	}
	return &vTarget{label: label, fail: vNondetBool("evaluate-fails")}, nil
}

func (t *vTarget) Evaluate(e Engine) error {
	vLog("evaluate")
	vAssert(vHolds == 1, "O-SLOTS: target evaluated without holding a slot")
	vAssert(vHeld() == 0, "O-LOCKS: target evaluated while holding a mutex")
	if t.fail {
		return vErrT("evaluate failed")
	}
	return nil
}

// VHarnessRun: along every path of run() — load failure, evaluate failure, success — exactly one
// load, at most one evaluate, final status and error as they happened and written under the lock,
// broadcast after the write, and the slot entered once and exited once.
func VHarnessRun() {
	vMode = "run"
	l := &vLoader{fail: vNondetBool("load-fails")}
	r := &runner{targetLoader: l, gate: newGate(1)}
	t := newTarget("a")
	vT = t
	t.status = statusRunning
	t.run(r)
	vAssert(vCount("load") == 1, "O-RUN: target loaded exactly once")
	if l.fail {
		vAssert(vCount("evaluate") == 0, "O-RUN: a target that failed to load is not evaluated")
		vAssert(t.status == statusFailed && t.err != nil, "O-RUN: load failure is the outcome")
		vReach("load-failed")
	} else {
		vAssert(vCount("evaluate") == 1, "O-RUN: target evaluated exactly once")
		failed := t.target != nil && t.target.(*vTarget).fail
		vAssert(t.target != nil, "O-RUN: loaded target recorded")
		vAssert((t.status == statusFailed) == failed && (t.err != nil) == failed, "O-RUN: outcome is the evaluation's outcome")
		vAssert(t.status == statusSucceeded || t.status == statusFailed, "O-RUN: final status stored")
		vReach("evaluated")
	}
	vAssert(vCount("broadcast") == 1 && vIndex("unlock") >= 0 && vIndex("unlock") < vIndex("broadcast"), "O-RUN: waiters are woken after the outcome is published")
	vAssert(vEnters == 1 && vExits == 1 && vHolds == 0, "O-SLOTS: one slot entered and exited on every path")
	vAssert(vIndex("enter") < vIndex("load"), "O-SLOTS: slot taken before loading")
	vAssert(vHeld() == 0, "O-LOCKS: mutex still held on return")
}

// ---------------------------------------------------------------- O-EVAL (C04, C05, C09)

func vTargetOf(d *target) Target { return &vTarget{label: d.label} }

// vMkTarget registers (or finds) the runner target of a label without going through getTarget, so
// that the obligations do not depend on that function's signature.
func vMkTarget(r *runner, l string) *target {
	if tv, ok := r.targetMap.Load(l); ok {
		return tv.(*target)
	}
	t := newTarget(l)
	r.targetMap.Store(l, t)
	return t
}

// VHarnessEval: EvaluateTargets with n requested dependencies in arbitrary pre-states.
func VHarnessEval() {
	vMode = "eval"
	n := vParam("deps")
	r := &runner{gate: newGate(2)}
	vHolds = 1 // the caller is inside Evaluate and holds its slot
	vRoot = vMkTarget(r, "root")
	vRoot.status = statusRunning
	other := newTarget("elsewhere")
	vOtherSet = []*target{other}
	labels := []string{"b", "c", "d"}[:n]
	if vParam("dup") == 1 && n >= 2 {
		labels[1] = labels[0] // the same dependency requested twice
	}
	seen := map[string]bool{}
	for _, l := range labels {
		d := vMkTarget(r, l)
		if !seen[l] {
			seen[l] = true
			st := int(vNondetU8("status-" + l))
			vAssume(st <= statusFailed)
			d.status = st
			if st == statusFailed {
				d.err = vErrT("dependency failed: " + l)
			}
			if st == statusSucceeded || st == statusFailed {
				d.target = vTargetOf(d)
			}
			fin := statusSucceeded
			if vNondetBool("final-fails-" + l) {
				fin = statusFailed
			}
			vFinal[d] = fin
		}
		vDeps = append(vDeps, d)
	}
	if vParam("self") == 1 {
		// a self-dependency: the root requests itself
		labels = append(labels, "root")
		vDeps = append(vDeps, vRoot)
		vCyclic = true
	}
	e := &engine{root: vRoot, runner: r}
	res := e.EvaluateTargets(labels...)

	vAssert(len(res) == len(labels), "O-EVAL: one result per requested label")
	pub, blk := vIndex("publish"), vIndex("block")
	vAssert(vIndex("exit") == 0, "O-SLOTS: slot released before anything else")
	vAssert(pub >= 0, "O-EVAL: wait set published")
	firstRead := -1
	for i, ev := range vEvents {
		if len(ev) > 5 && ev[:5] == "read:" && firstRead < 0 {
			firstRead = i
		}
	}
	vAssert(firstRead < 0 || pub < firstRead, "O-EVAL: wait set published before any other thread's wait set is read")
	if vCyclic {
		vAssert(blk < 0, "O-EVAL: blocked although the published wait-for graph has a cycle through this target")
		for i := range res {
			_, isCyc := res[i].Error.(CyclicDependencyError)
			vAssert(isCyc, "O-EVAL: cycle not reported for every requested dependency")
		}
		vReach("cyclic")
	} else {
		// no cycle was published: every dependency's wait set was inspected (after the publish,
		// before blocking), every dependency has finished, results are the actual outcomes
		for i, d := range vDeps {
			ri := vIndex("read:" + d.label)
			vAssert(ri > pub && (blk < 0 || ri < blk), "O-EVAL: a dependency's wait set was not checked between publishing and blocking")
			vAssert(d.status == statusSucceeded || d.status == statusFailed, "O-EVAL: returned before a requested dependency finished")
			vAssert(res[i].Error == d.err, "O-EVAL: result is not the dependency's actual outcome")
			_, isCyc := res[i].Error.(CyclicDependencyError)
			vAssert(!isCyc, "O-EVAL: cyclic dependency reported without a cycle")
			if d.status == statusSucceeded {
				vAssert(res[i].Target == d.target && res[i].Target != nil, "O-EVAL: result does not carry the dependency's target")
			}
		}
		vReach("acyclic")
	}
	for _, d := range vDeps {
		if d != vRoot {
			vAssert(d.status != statusIdle, "O-EVAL: a requested dependency was never started")
		}
	}
	vAssert(vHolds == 1 && vEnters == 1 && vExits == 1, "O-SLOTS: slot released once and re-acquired once")
	vAssert(vEvents[len(vEvents)-1] == "enter" || vEvents[len(vEvents)-1] == "clear", "O-SLOTS: slot re-acquired at the end")
	vAssert(vHeld() == 0, "O-LOCKS: mutex still held on return")
}

// ---------------------------------------------------------------- O-RUNAPI (C04)

// VHarnessRunAPI: Run starts the requested target and returns that target's outcome.
func VHarnessRunAPI() {
	vMode = "runapi"
	vFinalSt = statusSucceeded
	if vNondetBool("fails") {
		vFinalSt, vFinalErr = statusFailed, vErrT("root failed")
	}
	err := Run(&vLoader{}, "root")
	vAssert(vSpawns == 1, "O-RUNAPI: requested target started once")
	vAssert(err == vFinalErr, "O-RUNAPI: build result is the requested target's outcome")
	vReach("ran")
}

func vOnSyncMapResult(k, v any) {
	if vMode == "runapi" {
		vT = v.(*target)
	}
}
