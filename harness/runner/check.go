package runner

// O-CHECK (C05): over every published wait-for graph on n nodes in which every cycle passes through
// the checking thread's root, check(dep) reports a cyclic dependency iff the root is reachable from
// dep, and nil otherwise. Adjacency bits are solver variables (the exploration is split over the
// root's row for n = 4). Graphs with a cycle that avoids the root are assumed away: while such a
// cycle is transiently published its members are about to detect it themselves, and the walk's
// termination then depends on their progress (DESIGN.md, observation O1).

func VHarnessCheck() {
	n := vParam("nodes")
	ts := make([]*target, n)
	for i := range ts {
		ts[i] = newTarget(string(rune('a' + i)))
	}
	adj := make([][]bool, n)
	for i := 0; i < n; i++ {
		adj[i] = make([]bool, n)
		var deps []*target
		published := vNondetBool("published")
		for j := 0; j < n; j++ {
			e := vNondetBool("edge")
			if i == 0 && vParam("row0") >= 0 {
				vAssume(e == (vParam("row0")>>uint(j)&1 == 1))
			}
			if e {
				adj[i][j] = published
				deps = append(deps, ts[j])
			}
		}
		if published {
			d := deps
			ts[i].waiting.Store(&d)
		}
	}
	reach := make([][]bool, n)
	r2 := make([][]bool, n)
	for i := range reach {
		reach[i] = append([]bool{}, adj[i]...)
		r2[i] = make([]bool, n)
		for j := 1; j < n; j++ {
			if i >= 1 {
				r2[i][j] = adj[i][j]
			}
		}
	}
	for k := 0; k < n; k++ {
		for i := 0; i < n; i++ {
			for j := 0; j < n; j++ {
				if reach[i][k] && reach[k][j] {
					reach[i][j] = true
				}
				if k >= 1 && r2[i][k] && r2[k][j] {
					r2[i][j] = true
				}
			}
		}
	}
	for i := 1; i < n; i++ {
		if r2[i][i] {
			vReach("skipped-cycle-avoiding-root")
			return
		}
	}
	e := &engine{root: ts[0], runner: &runner{gate: newGate(1)}}
	for d := 0; d < n; d++ {
		err := e.check(ts[d])
		want := d == 0 || reach[d][0]
		if want {
			_, isCyc := err.(CyclicDependencyError)
			vAssert(err != nil && isCyc, "O-CHECK: a cycle through this target is not reported")
			vReach("cycle")
		} else {
			vAssert(err == nil, "O-CHECK: cyclic dependency reported although this target is not reachable")
			vReach("no-cycle")
		}
	}
	// checkDeps over a list reports a cycle iff some member does
	var all []*target
	anyCyc := false
	for d := 1; d < n; d++ {
		all = append(all, ts[d])
		anyCyc = anyCyc || reach[d][0]
	}
	vAssert((e.checkDeps(all) != nil) == anyCyc, "O-CHECK: checkDeps disagrees with its members")
}
