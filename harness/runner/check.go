package runner

// O-CHECK (C05): over every published wait-for graph on n nodes in which every cycle passes through
// the requesting target (the root), a dependency request of the root reports a cyclic dependency iff
// the root is reachable from one of the requested dependencies, and otherwise blocks until they
// finish and reports none. The graph walk (engine.check / checkDeps) is exercised through
// EvaluateTargets, so the obligation does not depend on the walk's internal signatures. Adjacency
// bits are solver variables (the exploration is split over the root's row for n = 4). Graphs with a
// cycle that avoids the root are assumed away: while such a cycle is transiently published its
// members are about to detect it themselves, and the walk's termination then depends on their
// progress (DESIGN.md, observation O1).

func VHarnessCheck() {
	vMode = "check"
	n := vParam("nodes")
	r := &runner{gate: newGate(2)}
	vHolds = 1
	ts := make([]*target, n)
	for i := range ts {
		ts[i] = vMkTarget(r, string(rune('a'+i)))
		ts[i].status = statusRunning
	}
	vRoot = ts[0]
	adj := make([][]bool, n)
	var request []string
	for i := 0; i < n; i++ {
		adj[i] = make([]bool, n)
		var deps []*target
		for j := 0; j < n; j++ {
			e := vNondetBool("edge")
			if i == 0 && vParam("row0") >= 0 {
				vAssume(e == (vParam("row0")>>uint(j)&1 == 1))
			}
			if e {
				adj[i][j] = true
				deps = append(deps, ts[j])
				if i == 0 {
					request = append(request, ts[j].label)
				}
			}
		}
		if i > 0 && vNondetBool("published") {
			d := deps
			ts[i].waiting.Store(&d)
		} else if i > 0 {
			for j := range adj[i] {
				adj[i][j] = false // not published: no wait edges
			}
		}
	}
	if len(request) == 0 {
		vReach("nothing-requested")
		return
	}
	reach := make([][]bool, n)
	r2 := make([][]bool, n)
	for i := range reach {
		reach[i] = append([]bool{}, adj[i]...)
		r2[i] = make([]bool, n)
		for j := 1; j < n; j++ {
			if i >= 1 {
				r2[i][j] = adj[i][j]
			}
		}
	}
	for k := 0; k < n; k++ {
		for i := 0; i < n; i++ {
			for j := 0; j < n; j++ {
				if reach[i][k] && reach[k][j] {
					reach[i][j] = true
				}
				if k >= 1 && r2[i][k] && r2[k][j] {
					r2[i][j] = true
				}
			}
		}
	}
	for i := 1; i < n; i++ {
		if r2[i][i] {
			vReach("skipped-cycle-avoiding-root")
			return
		}
	}
	vDeps = ts[1:]
	for _, d := range vDeps {
		vFinal[d] = statusSucceeded
	}
	e := &engine{root: ts[0], runner: r}
	res := e.EvaluateTargets(request...)
	want := reach[0][0] // the root reaches itself through what it requests
	for i := range res {
		_, isCyc := res[i].Error.(CyclicDependencyError)
		if want {
			vAssert(isCyc, "O-CHECK: a cycle through this target is not reported")
		} else {
			vAssert(!isCyc, "O-CHECK: cyclic dependency reported although this target is not on a cycle")
		}
	}
	if want {
		vAssert(vIndex("block") < 0, "O-CHECK: blocked although a cycle through this target is published")
		vReach("cycle")
	} else {
		vReach("no-cycle")
	}
}
