package project

import (
	"fmt"
	"io"
	"os"

	"github.com/pelletier/go-toml/v2"
)

// C19: writing a configuration and loading it back yields the same configuration, and writing the
// loaded configuration again produces the same document.
//
// go-toml is trusted for the encoding of one value and for parsing standard TOML. What dawn adds —
// and what is executed here from its SSA — is the document skeleton of WriteConfigFile (which keys
// and headers are emitted, in which order, and whether a requirement name is written bare or
// quoted), the load-time validation loop, and CleanPath/SplitPathVersion/JoinPathVersion.

// What WriteConfigFile prints is rendered to text (fmt's own formatting rules, through the engine's
// fmt model; natively the real fmt) and the reader below parses that text the way a TOML parser
// reads the document skeleton.
var vDoc string

var vStubTable = map[string]string{
	"os.Create":        "vCreate",
	"(*os.File).Close": "vFileClose",
	"fmt.Fprintf":      "vFprintf",
	"fmt.Fprintln":     "vFprintln",
	"github.com/pelletier/go-toml/v2.NewEncoder":                 "vNewEncoder",
	"(*github.com/pelletier/go-toml/v2.Encoder).SetTablesInline": "vSetTablesInline",
	"(*github.com/pelletier/go-toml/v2.Encoder).Encode":          "vEncode",
	"github.com/pelletier/go-toml/v2.Unmarshal":                  "vUnmarshal",
}

func vCreate(name string) (*os.File, error) { return &os.File{}, nil }
func vFileClose(f *os.File) error           { return nil }

func vFprintf(w io.Writer, format string, a ...any) (int, error) {
	vDoc += fmt.Sprintf(format, a...)
	return 0, nil
}

func vFprintln(w io.Writer, a ...any) (int, error) {
	vDoc += fmt.Sprint(a...) + "\n"
	return 1, nil
}

// The go-toml encoder is replaced at its API: NewEncoder captures the writer, Encode writes an opaque,
// invertible token (go-toml is trusted to round-trip a single string or array of strings). dawn's
// own encodeValue around it is executed from its SSA.
var vEncW io.Writer

func vNewEncoder(w io.Writer) *toml.Encoder { vEncW = w; return &toml.Encoder{} }

func vSetTablesInline(e *toml.Encoder, inline bool) *toml.Encoder { return e }

func vEncode(e *toml.Encoder, v any) error {
	_, err := io.WriteString(vEncW, vEncodeValue(v))
	return err
}

func vEncodeValue(v any) string {
	switch v := v.(type) {
	case string:
		return vTok(v)
	case []string:
		s := "\x03"
		for _, x := range v {
			s += vTok(x)
		}
		return s
	}
	return "<invalid>"
}

// a string token is \x01, a length byte, the payload: invertible for any payload
func vTok(s string) string  { return "\x01" + string([]byte{byte(len(s))}) + s }
func vIsTok(s string) bool   { return len(s) >= 2 && s[0] == 1 && int(s[1]) == len(s)-2 }
func vUntok(s string) string { return s[2:] }

func vUntokList(s string) []string {
	var out []string
	if len(s) < 1 || s[0] != 3 {
		return nil
	}
	for i := 1; i+1 < len(s) && s[i] == 1; {
		n := int(s[i+1])
		out = append(out, s[i+2:i+2+n])
		i += 2 + n
	}
	return out
}

// vValue reads one emitted value: a token written by the (trusted) encoder, or text that dawn wrote
// itself, which must then be a TOML string by TOML's own rules: a literal string '...' without
// apostrophes or control characters (tab excepted; DEL is a control character), or a basic string
// "..." without quotes, backslashes or control characters.
func vValue(s string) (string, bool) {
	if vIsTok(s) {
		return vUntok(s), true
	}
	if len(s) >= 2 && (s[0] == '\'' || s[0] == '"') && s[len(s)-1] == s[0] {
		in := s[1 : len(s)-1]
		for i := 0; i < len(in); i++ {
			c := in[i]
			if c == s[0] || (c < 0x20 && c != '\t') || c == 0x7f || (s[0] == '"' && c == '\\') {
				return "", false
			}
		}
		return in, true
	}
	return "", false
}

// vValidBareKey: TOML bare keys are non-empty and consist of A-Za-z0-9_- only.
func vValidBareKey(name string) bool {
	if name == "" {
		return false
	}
	for i := 0; i < len(name); i++ {
		c := name[i]
		if !(c >= 'A' && c <= 'Z' || c >= 'a' && c <= 'z' || c >= '0' && c <= '9' || c == '_' || c == '-') {
			return false
		}
	}
	return true
}

// vScanValue scans one value at doc[i:]: an encoder token (\x01 len payload), a list of them
// (\x03 ...), or a TOML literal / basic string that dawn wrote itself. Returns the text, the index
// after it, and whether it is well-formed.
func vScanValue(doc string, i int) (string, int, bool) {
	if i >= len(doc) {
		return "", i, false
	}
	switch doc[i] {
	case 1:
		if i+1 >= len(doc) {
			return "", i, false
		}
		n := int(doc[i+1])
		if i+2+n > len(doc) {
			return "", i, false
		}
		return doc[i+2 : i+2+n], i + 2 + n, true
	case '\'', '"':
		q := doc[i]
		for j := i + 1; j < len(doc); j++ {
			c := doc[j]
			if c == q {
				return doc[i+1 : j], j + 1, true
			}
			if (c < 0x20 && c != '\t') || c == 0x7f || (q == '"' && c == '\\') {
				return "", i, false
			}
		}
	}
	return "", i, false
}

func vHasPrefixAt(doc string, i int, p string) bool { return i+len(p) <= len(doc) && doc[i:i+len(p)] == p }

// vRead reads the written document skeleton back the way a TOML parser would: lines `name = V`,
// `version = V`, `ignore = [V...]`, blank lines, one `[requirements]` header, then lines
// `KEY = {path = V, version = V}` where KEY is a quoted string or a bare key ([A-Za-z0-9_-]+).
func vRead(doc string) (*Config, bool) {
	c := &Config{}
	inReqs := false
	seenName, seenVersion, seenIgnore := false, false, false
	i := 0
	for i < len(doc) {
		switch {
		case doc[i] == '\n':
			i++
		case !inReqs && vHasPrefixAt(doc, i, "name = "):
			v, j, ok := vScanValue(doc, i+7)
			if !ok || seenName || !vHasPrefixAt(doc, j, "\n") {
				return c, false
			}
			c.Name, seenName, i = v, true, j+1
		case !inReqs && vHasPrefixAt(doc, i, "version = "):
			v, j, ok := vScanValue(doc, i+10)
			if !ok || seenVersion || !vHasPrefixAt(doc, j, "\n") {
				return c, false
			}
			c.Version, seenVersion, i = v, true, j+1
		case !inReqs && vHasPrefixAt(doc, i, "ignore = \x03"):
			if seenIgnore {
				return c, false
			}
			j := i + 10
			for j < len(doc) && doc[j] == 1 {
				v, k, ok := vScanValue(doc, j)
				if !ok {
					return c, false
				}
				c.Ignore = append(c.Ignore, v)
				j = k
			}
			if !vHasPrefixAt(doc, j, "\n") {
				return c, false
			}
			seenIgnore, i = true, j+1
		case vHasPrefixAt(doc, i, "[requirements]\n"):
			if inReqs {
				return c, false // a table may be defined once
			}
			inReqs = true
			c.Requirements = map[string]RequirementConfig{}
			i += 15
		case inReqs:
			// KEY
			key, j, quoted := vScanValue(doc, i)
			if !quoted {
				j = i
				for j < len(doc) && vValidBareKey(doc[j:j+1]) {
					j++
				}
				key = doc[i:j]
				if key == "" {
					vReach("invalid-bare-key")
					return c, false
				}
			}
			if !vHasPrefixAt(doc, j, " = {path = ") {
				vReach("invalid-bare-key")
				return c, false
			}
			pv, k, ok1 := vScanValue(doc, j+11)
			if !ok1 || !vHasPrefixAt(doc, k, ", version = ") {
				return c, false
			}
			vv, k2, ok2 := vScanValue(doc, k+12)
			if !ok2 || !vHasPrefixAt(doc, k2, "}\n") {
				return c, false
			}
			if _, dup := c.Requirements[key]; dup {
				return c, false
			}
			c.Requirements[key] = RequirementConfig{Path: pv, Version: vv}
			i = k2 + 2
		default:
			return c, false
		}
	}
	return c, true
}

func vSameConfig(a, b *Config) bool {
	if a.Name != b.Name || a.Version != b.Version || len(a.Ignore) != len(b.Ignore) || len(a.Requirements) != len(b.Requirements) {
		return false
	}
	for i := range a.Ignore {
		if a.Ignore[i] != b.Ignore[i] {
			return false
		}
	}
	for k, v := range a.Requirements {
		w, ok := b.Requirements[k]
		if !ok || v != w {
			return false
		}
	}
	return true
}

var vParsed *Config

// vUnmarshal hands LoadConfigBytes what the parser produced, so that its validation loop and
// CleanPath run for real.
func vUnmarshal(data []byte, v any) error {
	c := v.(*Config)
	c.Name, c.Version, c.Ignore = vParsed.Name, vParsed.Version, vParsed.Ignore
	if vParsed.Requirements != nil {
		c.Requirements = map[string]RequirementConfig{}
		for k, r := range vParsed.Requirements {
			c.Requirements[k] = r
		}
	}
	return nil
}

func vSym(n int, tag string) string {
	b := make([]byte, n)
	for i := range b {
		b[i] = vNondetU8(tag)
	}
	return string(b)
}

var vPaths = []string{"github.com/a/b", "example.com/x@v2", "a", "host/p/q@v10"}
var vVersions = []string{"v1.2.3", "v2.0.0", "v0.0.1-pre", "v10.20.30"}

// VHarnessC19RoundTrip: a configuration with a symbolic project name, 0-2 ignore patterns and
// nreq requirements whose names are arbitrary byte strings of the given lengths.
func VHarnessC19RoundTrip() {
	c := &Config{Name: vSym(vParam("name"), "name"), Version: vVersions[vParam("ver")]}
	if vParam("nover") == 1 {
		c.Version = ""
	}
	for i := 0; i < vParam("ignore"); i++ {
		c.Ignore = append(c.Ignore, vSym(1, "ign"))
	}
	nreq := vParam("nreq")
	if nreq > 0 {
		c.Requirements = map[string]RequirementConfig{}
	}
	lens := []int{vParam("k0"), vParam("k1")}
	for i := 0; i < nreq; i++ {
		name := vSym(lens[i], "req")
		vRegion("D10-empty-requirement-name", len(name) == 0)
		c.Requirements[name] = RequirementConfig{Path: vPaths[(i+vParam("ver"))%len(vPaths)], Version: vVersions[(i+1)%len(vVersions)]}
	}

	if vNative() {
		vNativeRoundTrip(c)
		return
	}
	vDoc = ""
	vAssert(WriteConfigFile("dawn.toml", c) == nil, "write-ok")
	first := vDoc
	parsed, ok := vRead(first)
	vAssert(ok, "written-document-parses")
	if !ok {
		return
	}
	vParsed = parsed
	loaded, err := LoadConfigBytes(nil)
	vAssert(err == nil, "written-document-loads")
	if err != nil {
		return
	}
	vAssert(vSameConfig(c, loaded), "loaded-config-equals-written")
	vDoc = ""
	vAssert(WriteConfigFile("dawn.toml", loaded) == nil, "rewrite-ok")
	vAssert(first == vDoc, "rewriting-gives-identical-document")
	vReach("roundtrip")
}

// vNativeRoundTrip is the replay of a counterexample on the native build: the real file, the real
// go-toml, the same assertions.
func vNativeRoundTrip(c *Config) {
	dir, err := os.MkdirTemp("", "verif-c19")
	if err != nil {
		panic(err)
	}
	defer os.RemoveAll(dir)
	p := dir + "/dawn.toml"
	vAssert(WriteConfigFile(p, c) == nil, "write-ok")
	first, _ := os.ReadFile(p)
	loaded, err := LoadConfigFile(p)
	vAssert(err == nil, "written-document-parses")
	if err != nil {
		return
	}
	vAssert(vSameConfig(c, loaded), "loaded-config-equals-written")
	vAssert(WriteConfigFile(p, loaded) == nil, "rewrite-ok")
	second, _ := os.ReadFile(p)
	vAssert(string(first) == string(second), "rewriting-gives-identical-document")
}

// VHarnessC19Twin: reachability twin.
func VHarnessC19Twin() {
	c := &Config{Name: "x", Requirements: map[string]RequirementConfig{vSym(1, "req"): {Path: "a", Version: "v1.0.0"}}}
	vDoc = ""
	WriteConfigFile("dawn.toml", c)
	if _, ok := vRead(vDoc); ok {
		vAssert(false, "twin")
	}
}

// vCleanForm: a path in clean form, taken syntactically: components separated by single '/', none
// empty, "." or ".."; the last component may end in "@<major>" with a major other than "", "v0"
// and "v1" (which JoinPathVersion drops) and a non-empty part before it; '@' is otherwise an
// ordinary character (scoped directories such as acme/@tools/lint are clean paths).
func vCleanForm(p string) bool {
	if p == "" {
		return false
	}
	last := 0
	for i := 0; i < len(p); i++ {
		if p[i] == '/' {
			last = i + 1
		}
	}
	base := p
	for i := len(p) - 1; i >= last; i-- {
		if p[i] == '@' {
			major := p[i+1:]
			if major == "" || major == "v0" || major == "v1" {
				return false
			}
			base = p[:i]
			break
		}
	}
	if base == "" {
		return false
	}
	start := 0
	for i := 0; i <= len(base); i++ {
		if i == len(base) || base[i] == '/' {
			comp := base[start:i]
			if comp == "" || comp == "." || comp == ".." {
				return false
			}
			start = i + 1
		}
	}
	return true
}

// VHarnessC19Path: CleanPath is the identity on clean-form paths, Split/JoinPathVersion are
// mutually inverse on them, and CleanPath never panics on any string.
func VHarnessC19Path() {
	p := vSym(vParam("n"), "p")
	c := CleanPath(p) // no panic on any string
	if !vCleanForm(p) {
		vReach("other")
		return
	}
	vReach("clean-form")
	vAssert(c == p, "cleanpath-identity-on-clean-form")
	base, ver := SplitPathVersion(p)
	vAssert(JoinPathVersion(base, ver) == p, "split-join-inverse")
	vAssert(TrimPathVersion(p) == base, "trim-is-split-base")
}

// VHarnessC19Version: the load-time validation accepts a version iff it is canonical semver, for
// versions "vA.B.C" / "vA.B" / "vA.B.C-p" with symbolic characters.
func VHarnessC19Version() {
	shapes := []string{"v?.?.?", "v?.?", "v?.?.?-?", "?1.2.3", "v??.?.?", "v?.?.?+?"}
	b := []byte(shapes[vParam("shape")])
	for i := range b {
		if b[i] == '?' {
			b[i] = vNondetU8("c")
			vAssume(b[i] >= 0x20 && b[i] < 0x7f)
		}
	}
	v := string(b)
	vParsed = &Config{Requirements: map[string]RequirementConfig{"r": {Path: "a/b", Version: v}}}
	_, err := LoadConfigBytes(nil)
	vAssert((err == nil) == vCanonical(v, vParam("shape")), "accepts-exactly-canonical-semver")
	if err == nil {
		vReach("accepted")
	} else {
		vReach("rejected")
	}
}

func vDigit(c byte) bool { return c >= '0' && c <= '9' }

// vCanonical: canonical semver for the shapes above (written from semver.org: numeric identifiers
// without leading zeros, pre-release identifiers alphanumeric/hyphen, build metadata not canonical,
// and all three numbers required).
func vCanonical(v string, shape int) bool {
	switch shape {
	case 0:
		return vDigit(v[1]) && vDigit(v[3]) && vDigit(v[5])
	case 1:
		return false // vA.B canonicalises to vA.B.0
	case 2:
		p := v[7]
		return vDigit(v[1]) && vDigit(v[3]) && vDigit(v[5]) && (vDigit(p) || p >= 'a' && p <= 'z' || p >= 'A' && p <= 'Z' || p == '-')
	case 3:
		return v[0] == 'v'
	case 4:
		return vDigit(v[1]) && v[1] != '0' && vDigit(v[2]) && vDigit(v[4]) && vDigit(v[6])
	default:
		return false // build metadata is dropped by Canonical
	}
}
