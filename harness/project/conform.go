package project

// Translator validation: the repository's CleanPath test cases and more.

func VConformPath() {
	for _, p := range []string{"foo", "./foo/bar/../baz", "foo@v0", "foo@v1", "foo@v2", "foo@bar/baz", "foo@bar/baz@v0", "", "@", "@@", "a/@b/c", "a@v2/b", "x/y@v10", "../a", "a//b@v3", "@v2"} {
		b, v := SplitPathVersion(p)
		vNote("path " + p + " -> clean=" + CleanPath(p) + " split=" + b + "|" + v + " trim=" + TrimPathVersion(p) + " join=" + JoinPathVersion(b, v))
	}
	for _, n := range []string{"", "a", "a-b_9", "a b", "é", "a.b", "\"", "'"} {
		plain := true
		for _, r := range n {
			plain = plain && isPlainRune(r)
		}
		if plain {
			vNote("name " + n + " plain")
		} else {
			vNote("name " + n + " needs quoting")
		}
	}
}
