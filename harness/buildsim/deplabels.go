package dawn

import (
	"github.com/pgavlin/dawn/label"
	"go.starlark.net/starlark"
)

// C04 (target identity): the runner identifies a target by the label string it is requested under,
// and Project.LoadTarget canonicalises the string before looking it up — so the strings that the
// target() builtin records as dependencies must already be canonical, or two spellings of one label
// become two runner targets that evaluate the same target twice in one build.
//
// VHarnessDepLabels: the real builtin_target with one dependency given as an arbitrary string of
// vParam("n") bytes: whatever is accepted is recorded in canonical form (it re-parses to itself and
// printing the parsed label gives the recorded string back), and two spellings that parse to the
// same label are recorded as the same string.
func VHarnessDepLabels() {
	vMkdirs(vTemp)
	proj := &Project{root: vRoot, work: vWork, temp: vTemp, events: DiscardEvents,
		flags: map[string]*Flag{}, modules: map[string]*module{}, targets: map[string]*runTarget{}}
	m := &module{label: &label.Label{Kind: "module", Package: "//pkg", Name: "BUILD.dawn"}}
	thread := &starlark.Thread{}
	thread.SetLocal("module", m)
	b := make([]byte, vParam("n"))
	for i := range b {
		b[i] = vNondetU8("dep")
	}
	raw := string(b)
	_, err := proj.builtin_target(thread, starlark.NewBuiltin("target", nil), "t", starlark.Tuple{starlark.String(raw)}, nil, nil, &starlark.Function{}, false, false, "doc")
	if err != nil {
		vReach("rejected")
		return
	}
	rt := proj.targets["//pkg:t"]
	vAssert(rt != nil, "dep-labels: target not registered under its canonical label")
	if rt == nil {
		return
	}
	deps := rt.target.dependencies()
	vAssert(len(deps) == 1, "dep-labels: one dependency expected")
	if len(deps) != 1 {
		return
	}
	orig, _ := label.Parse(raw)
	if orig != nil && orig.Kind != "" && orig.Name == "" {
		// the label syntax cannot spell a kind without a name (C12's carve-out); such a dependency
		// names no target and fails when it is requested
		vReach("kind-without-name")
		return
	}
	l, err := label.Parse(deps[0])
	vAssert(err == nil, "dep-labels: recorded dependency does not parse")
	if err != nil {
		return
	}
	vAssert(l.String() == deps[0], "dep-labels: a dependency is recorded under a non-canonical spelling (the runner would treat it as a different target)")
	vAssert(l.IsAbs(), "dep-labels: recorded dependency is not absolute")
	vReach("accepted")
}

// VHarnessGenPaths (C12, confinement through the target() builtin): a declared output given as an
// arbitrary string of vParam("n") bytes is either rejected or resolves to a location strictly inside
// the project root (no '..' component survives, the path starts with the root), and likewise for a
// declared source.
func VHarnessGenPaths() {
	vMkdirs(vTemp)
	proj := &Project{root: vRoot, work: vWork, temp: vTemp, events: DiscardEvents,
		flags: map[string]*Flag{}, modules: map[string]*module{}, targets: map[string]*runTarget{}}
	m := &module{label: &label.Label{Kind: "module", Package: vGenPkgs[vParam("pkg")], Name: "BUILD.dawn"}}
	thread := &starlark.Thread{}
	thread.SetLocal("module", m)
	b := make([]byte, vParam("n"))
	for i := range b {
		b[i] = vNondetU8("path")
	}
	raw := string(b)
	var srcs, gens []string
	if vParam("source") == 1 {
		srcs = []string{raw}
	} else {
		gens = []string{raw}
	}
	_, err := proj.builtin_target(thread, starlark.NewBuiltin("target", nil), "t", nil, srcs, gens, &starlark.Function{}, false, false, "doc")
	if err != nil {
		vReach("rejected")
		return
	}
	rt := proj.targets[m.label.Package+":t"]
	if rt == nil {
		vAssert(false, "gen-paths: target not registered")
		return
	}
	f := rt.target.(*function)
	paths := f.gens
	if vParam("source") == 1 {
		paths = f.sources
	}
	for _, p := range paths {
		inside := len(p) > len(vRoot) && p[:len(vRoot)+1] == vRoot+"/" || p == vRoot
		vAssert(inside, "gen-paths: a declared path resolves outside the project root")
		for i := 0; i+2 <= len(p); i++ {
			if p[i:i+2] == ".." && (i == 0 || p[i-1] == '/') && (i+2 == len(p) || p[i+2] == '/') {
				vAssert(false, "gen-paths: a '..' component survives in a resolved path")
			}
		}
	}
	vReach("accepted")
}

var vGenPkgs = []string{"//", "//a", "//a/b"}
