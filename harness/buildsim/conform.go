package dawn

import (
	"sort"
	"strings"
)

// Validation of the kernel's environment models against the real thing. A scenario (a project shape
// and a concrete sequence of edits, builds with flags and failing bodies, and collections) is run
//   - in the engine on the kernel: the real decision code over the modelled file system, hashing,
//     record encoding, bodies and sequential runner, and
//   - natively as a real project directory with generated BUILD.dawn files, real dawn.Load (fresh for
//     every build), Project.Run with the parallel runner, real Starlark fingerprints, sha256, JSON and
//     shell bodies,
// and after every step both report the same observation: which bodies ran, whether the build
// succeeded, and which record files exist below .dawn/build.

type vScenario struct {
	shape int
	steps string // space separated; see vStepEngine / vStepNative
}

var vScenarios = []vScenario{
	{0, "B:top B:top C:s.txt=b B:top B:gen C:s.txt=c B:gen B:top E:gen=b B:top E:top=b B:top L"},
	{0, "B:top B!gen:top B:top B!top:top B:top BA:top BD:top B:top L"},
	{0, "B:gen C:s.txt=b B!gen:top B:gen B:top X:s.txt B:top L"},
	{1, "B:top O B:top C:s.txt=b B:gen B:top B:top G L B:top"},
	{1, "B:top C:s.txt=b BD:top B:top E:gen=c BD:top B!gen:top B:top L"},
	{2, "B:top C:s.txt=b B:left B:top C:t.txt=b B:top B!right:top B:top G L B:top"},
	{3, "B:top Dc:d/x.txt=b B:top Dr B:top Da B:top Dd B:top G L B:top"},
	{4, "B:top C:a/s.txt=b B:top O B:top E:top=b B:top G L B:top"},
	{5, "B:top B:top C:s.txt=b B:top B:mid BA:top L"},
	{6, "B:top C:third_party/z/v.txt=b B:top G L B:top"},
	{2, "B:top B!left:top C:t.txt=b B:top B:right BA:left B:top L"},
	{5, "B:top BD:top B!mid:top B:top E:stamp=b B:top L"},
}

func vSortedJoin(xs []string) string {
	ys := append([]string{}, xs...)
	sort.Strings(ys)
	return strings.Join(ys, ",")
}

// VConformKernel: scenario vParam("sc").
func VConformKernel() {
	sc := vScenarios[vParam("sc")]
	if vNative() {
		vScenarioNative(sc)
	} else {
		vScenarioEngine(sc)
	}
}

func vParseBuild(step string) (fail, target string, opts *RunOptions) {
	// B[A][D][!name]:target
	colon := strings.IndexByte(step, ':')
	head, target := step[1:colon], step[colon+1:]
	if i := strings.IndexByte(head, '!'); i >= 0 {
		fail, head = head[i+1:], head[:i]
	}
	if strings.Contains(head, "A") || strings.Contains(head, "D") {
		opts = &RunOptions{Always: strings.Contains(head, "A"), DryRun: strings.Contains(head, "D")}
	}
	return fail, target, opts
}

// ---------------------------------------------------------------- engine side (the kernel)

func vScenarioEngine(sc vScenario) {
	vConcrete = true
	vIndexMode = true
	vIgnoring = sc.shape == 6
	vInit(sc.shape)
	for _, step := range strings.Split(sc.steps, " ") {
		switch {
		case step[0] == 'B':
			fail, target, opts := vParseBuild(step)
			vFail = map[string]bool{}
			if fail != "" {
				vFail[fail] = true
			}
			_, buildErr, _ := vBuild(vLabelOf(vSpec(target)), opts)
			vNote(step + " -> ran=" + vSortedJoin(vRan) + " ok=" + vBoolStr(buildErr == nil))
		case step[0] == 'C' || strings.HasPrefix(step, "Dc"):
			kv := step[strings.IndexByte(step, ':')+1:]
			eq := strings.IndexByte(kv, '=')
			vWriteFile(vRoot+"/"+kv[:eq], kv[eq+1:])
		case step[0] == 'X':
			vRemove(vRoot + "/" + step[2:])
		case step[0] == 'E':
			kv := step[2:]
			eq := strings.IndexByte(kv, '=')
			vEnvTok[kv[:eq]] = kv[eq+1:]
		case step == "O":
			for i := range vShape {
				for _, g := range vShape[i].gens {
					vRemove(vRoot + "/" + g)
				}
			}
		case step == "Dr":
			n := vFS[vRoot+"/d/x.txt"]
			vRemove(vRoot + "/d/x.txt")
			vWriteFile(vRoot+"/d/z.txt", n.content)
		case step == "Da":
			vWriteFile(vRoot+"/d/w.txt", "a")
		case step == "Dd":
			vRemove(vRoot + "/d/y.txt")
		case step == "G":
			vCollect()
		case step == "L":
			var recs []string
			for p, n := range vFS {
				if !n.dir && strings.HasPrefix(p, vWork+"/") && !strings.HasPrefix(p, vTemp+"/") {
					recs = append(recs, p[len(vWork)+1:])
				}
			}
			vNote("records: " + vSortedJoin(recs))
		}
	}
}

func vBoolStr(b bool) string {
	if b {
		return "true"
	}
	return "false"
}
