//go:build !purego

package dawn

// Native side of the kernel harnesses: when a kernel counterexample is replayed on the natively
// compiled code, the same harness functions run with the solver's assignment, but the project is a
// real directory with generated BUILD.dawn files, loaded by the real dawn.Load and built by the real
// Project.Run (parallel runner, Starlark fingerprints, sha256, JSON records, shell bodies). The model
// file system (vFS) is kept as a mirror of the project files the harness itself writes; after every
// build the declared outputs are read back into it and the ghost state (which bodies ran, when each
// target last executed successfully and what it saw) is reconstructed from marker files and the real
// event stream, so that the oracles of history.go are evaluated unchanged.

import (
	"encoding/json"
	"os"
	"path/filepath"
	"sort"
	"strings"

	starlark_os "github.com/pgavlin/dawn/lib/os"
	starlark_sh "github.com/pgavlin/dawn/lib/sh"
	"go.starlark.net/starlark"
)

var vRealRoot string

func vRealInit() {
	if vRealRoot != "" {
		return
	}
	d, err := os.MkdirTemp("", "verif-kernel-")
	if err != nil {
		panic(err)
	}
	d, _ = filepath.EvalSymlinks(d)
	vRealRoot = d
	vrtCleanups = append(vrtCleanups, func() { os.RemoveAll(d) })
	config := ""
	if vIgnoring {
		config = "ignore = [\"third_party/**\"]\n"
	}
	os.WriteFile(filepath.Join(d, "dawn.toml"), []byte(config), 0o644)
}

// vReal maps a model path (/p/...) to the real directory.
func vReal(p string) string {
	vRealInit()
	return filepath.Join(vRealRoot, filepath.FromSlash(strings.TrimPrefix(p, vRoot)))
}

func vRealWrite(p, content string) {
	if strings.HasPrefix(p, vWork) {
		return
	}
	os.MkdirAll(filepath.Dir(vReal(p)), 0o755)
	os.WriteFile(vReal(p), []byte(content), 0o644)
}

func vRealRemove(p string) {
	if strings.HasPrefix(p, vWork) {
		return
	}
	os.RemoveAll(vReal(p))
}

func vQuoteList(xs []string, prefix string) string {
	var q []string
	for _, x := range xs {
		q = append(q, "\""+prefix+x+"\"")
	}
	return "[" + strings.Join(q, ", ") + "]"
}

// vWriteBuildFiles generates one BUILD.dawn per package from the current shape, tokens and edits.
func vWriteBuildFiles() {
	vRealInit()
	root := vRealRoot
	pkgs := map[string]string{}
	for i := range vShape {
		s := &vShape[i]
		if _, ok := pkgs[s.pkg]; !ok {
			pkgs[s.pkg] = ""
		}
		if vGone(s.name) {
			continue
		}
		var b strings.Builder
		b.WriteString("ENV_" + s.name + " = \"" + vEnvTok[s.name] + "\"\n\n@target(")
		var args []string
		deps := append([]string{}, vDepsOf(s)...)
		if vBroken[s.name] {
			deps = append(deps, "//:nosuch")
		}
		if len(deps) > 0 {
			args = append(args, "deps="+vQuoteList(deps, ""))
		}
		if len(s.sources) > 0 {
			args = append(args, "sources="+vQuoteList(s.sources, "/"))
		}
		if len(s.gens) > 0 {
			args = append(args, "generates="+vQuoteList(s.gens, "/"))
		}
		if s.always {
			args = append(args, "always=True")
		}
		b.WriteString(strings.Join(args, ", ") + ")\ndef " + s.name + "():\n")
		// one shell command per execution: mark that the body ran; unless the body is to fail, write
		// each declared output as a function of the token and the inputs; finish with an unterminated
		// line of output. sh.exec echoes the command first: two lines of output per executed body
		// (vPrintsPerBody). The body then fails if asked to.
		var ins []string
		for _, src := range s.sources {
			ins = append(ins, root+"/"+src)
		}
		for _, d := range vDepsOf(s) {
			if ds := vBodies[vNameOf(d)]; ds != nil {
				for _, g := range ds.gens {
					ins = append(ins, root+"/"+g)
				}
			}
		}
		cmd := "touch " + root + "/RAN_" + s.name + "; if [ ! -e " + root + "/FAIL_" + s.name + " ]; then :; "
		for _, g := range s.gens {
			cmd += "(echo " + s.name + " \" + ENV_" + s.name + " + \"; for f in " + strings.Join(ins, " ") + "; do find $f -type f | sort; find $f -type f | sort | xargs cat; done) > " + root + "/" + g + " 2>/dev/null; "
		}
		cmd += "fi; printf 'out:" + s.name + "'"
		b.WriteString("    env = ENV_" + s.name + "\n")
		b.WriteString("    sh.exec(\"" + cmd + "\")\n")
		b.WriteString("    if os.exists(\"" + root + "/FAIL_" + s.name + "\"):\n        fail(\"body failed\")\n")
		b.WriteString("\n")
		pkgs[s.pkg] += b.String()
	}
	for pkg, text := range pkgs {
		p := filepath.Join(root, filepath.FromSlash(pkg[2:]), "BUILD.dawn")
		os.MkdirAll(filepath.Dir(p), 0o755)
		if old, err := os.ReadFile(p); err != nil || string(old) != text {
			os.WriteFile(p, []byte(text), 0o644)
		}
	}
}

func vLoadNative(preferIndex bool) (*Project, error) {
	vWriteBuildFiles()
	return Load(vRealRoot, &LoadOptions{
		Events:      vRecorder{},
		PreferIndex: preferIndex,
		Builtins:    starlark.StringDict{"os": starlark_os.Module, "sh": starlark_sh.Module},
	})
}

func vPreBuildNative() {
	vWriteBuildFiles()
	for i := range vShape {
		n := vShape[i].name
		os.Remove(filepath.Join(vRealRoot, "RAN_"+n))
		os.Remove(filepath.Join(vRealRoot, "FAIL_"+n))
		if vFail[n] {
			os.WriteFile(filepath.Join(vRealRoot, "FAIL_"+n), nil, 0o644)
		}
	}
}

// vPostBuildNative reads the declared outputs back into the mirror and reconstructs the ghost state.
func vPostBuildNative() {
	for i := range vShape {
		for _, g := range vShape[i].gens {
			p := vRoot + "/" + g
			if b, err := os.ReadFile(vReal(p)); err == nil {
				vPut(p, &vNode{content: string(b)})
			} else {
				delete(vFS, p)
			}
		}
	}
	ran := map[string]bool{}
	for i := range vShape {
		n := vShape[i].name
		if _, err := os.Stat(filepath.Join(vRealRoot, "RAN_"+n)); err == nil {
			ran[n] = true
		}
	}
	vEvMu.Lock()
	events := vEvents
	vEvents = nil
	vEvMu.Unlock()
	isFn := func(lbl string) (string, bool) {
		name := vNameOf(lbl)
		sp, ok := vBodies[name]
		return name, ok && lbl == vLabelOf(sp)
	}
	var out []vEv
	seenEval := map[string]bool{}
	for _, e := range events {
		out = append(out, e)
		name, fn := isFn(e.label)
		switch e.kind {
		case "evaluating":
			seenEval[e.label] = true
			vEvaluated = append(vEvaluated, e.label)
			if fn && ran[name] {
				out = append(out, vEv{e.label, "body"})
				vRan = append(vRan, name)
			}
		case "up-to-date":
			vEvaluated = append(vEvaluated, e.label)
			vCompleted = append(vCompleted, e.label)
		case "succeeded":
			vCompleted = append(vCompleted, e.label)
			if fn && ran[name] {
				vClock++
				vExec[name], vSaw[name], vLastOK[name] = vClock, vInputsOf(name), true
			}
		case "failed":
			if fn && ran[name] {
				vLastOK[name] = false
			}
		}
	}
	for n := range ran {
		// a body that ran although its target never reported evaluating: keep it visible to the oracles
		if sp := vBodies[n]; sp != nil && !seenEval[vLabelOf(sp)] {
			out = append(out, vEv{vLabelOf(sp), "body"})
			vRan = append(vRan, n)
		}
	}
	vEvMu.Lock()
	vEvents = out
	vEvMu.Unlock()
	if os.Getenv("VERIF_DEBUG_EVENTS") != "" {
		for _, e := range out {
			println("EVENT", e.label, e.kind)
		}
	}
}

// vListReal lists every path below dir (model paths), sorted.
func vListReal(dir string) []string {
	var out []string
	filepath.WalkDir(vReal(dir), func(p string, d os.DirEntry, err error) error {
		if err == nil && p != vReal(dir) {
			out = append(out, dir+filepath.ToSlash(p[len(vReal(dir)):]))
		}
		return nil
	})
	sort.Strings(out)
	return out
}

// vRunGCNative runs the real collection and reports what disappeared.
func vRunGCNative(proj *Project) error {
	before := vListReal(vRoot)
	err := proj.GC()
	after := map[string]bool{}
	for _, p := range vListReal(vRoot) {
		after[p] = true
	}
	for _, p := range before {
		if !after[p] {
			vRemoved = append(vRemoved, p)
		}
	}
	return err
}

func vSnapshotNative() vSnap {
	s := vSnap{records: map[string]targetInfo{}}
	for _, p := range vListReal(vRoot) {
		st, err := os.Stat(vReal(p))
		if err != nil || st.IsDir() {
			continue
		}
		base := filepath.Base(p)
		if strings.HasPrefix(p, vWork+"/") {
			if strings.HasPrefix(p, vWork+"/targets/") || strings.HasPrefix(p, vWork+"/sources/") {
				var info targetInfo
				if b, err := os.ReadFile(vReal(p)); err == nil && json.Unmarshal(b, &info) == nil {
					s.records[p] = info
				}
			}
			continue
		}
		if strings.HasPrefix(p, vRoot+"/.dawn") || base == "BUILD.dawn" || base == "dawn.toml" || strings.HasPrefix(base, "RAN_") || strings.HasPrefix(base, "FAIL_") {
			continue
		}
		b, _ := os.ReadFile(vReal(p))
		s.files += p + "=" + string(b) + ";"
	}
	return s
}
