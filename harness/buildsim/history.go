package dawn

// Symbolic edit/build histories over the kernel, with the oracles of C01 (never stale), C02 (no
// spurious rebuild), C03 (crash/failure recovery), C13 (dry runs) and C18 (event protocol).

var (
	vBuildNo     int
	vExecBuild   = map[string]int{}          // function name -> index of the build of its last successful execution
	vEvalIn      = map[int]map[string]bool{} // build index -> names evaluated in it
	vBodyRanIn   = map[int]map[string]bool{} // build index -> names whose body ran and failed in it (failure recorded)
	vPlain       []string                    // plain (not generated) source files of the shape
	vHasDir      bool
	vDirEntries  = []string{"d/x.txt", "d/y.txt"}
	vAllowDry    bool
	vAllowFail   bool
	vAllowAlways bool
	vRenamed     bool
	vAllowBreak  bool
)

// vConcrete: conformance scenarios start from a concrete tree (every content and token "a")
var vConcrete bool

func vSymByte(tag string) string {
	if vConcrete {
		return "a"
	}
	b := vNondetU8(tag)
	vAssume(b >= 'a' && b <= 'c') // three values: enough for every equality pattern of two or three edits
	return string([]byte{b})
}

// vInit: the initial tree: every plain source exists with symbolic content, every function has a
// symbolic environment token, nothing has been built.
func vInit(shape int) {
	vShape = append([]vTargetSpec{}, vShapes[shape]...)
	generated := map[string]bool{}
	for i := range vShape {
		s := &vShape[i]
		vBodies[s.name] = s
		vEnvTok[s.name] = vSymByte("env-" + s.name)
		for _, g := range s.gens {
			generated[g] = true
		}
	}
	seen := map[string]bool{}
	for i := range vShape {
		for _, src := range vShape[i].sources {
			if generated[src] || seen[src] {
				continue
			}
			seen[src] = true
			if src == "d" {
				vHasDir = true
				for _, e := range vDirEntries {
					vWriteFile(vRoot+"/"+e, vSymByte("content-"+e))
				}
				continue
			}
			vPlain = append(vPlain, src)
			vWriteFile(vRoot+"/"+src, vSymByte("content-"+src))
		}
	}
	vMkdirs(vTemp)
}

func vFunctionNames() []string {
	var out []string
	for i := range vShape {
		if !vGone(vShape[i].name) {
			out = append(out, vShape[i].name)
		}
	}
	return out
}

// vEdit performs one symbolic edit of the tree.
func vEdit() {
	kinds := []string{"nothing"}
	if !vKeepProject || vKept == nil {
		kinds = append(kinds, "env") // code and referenced values change only with a (re)load
	}
	if len(vPlain) > 0 {
		kinds = append(kinds, "content", "delete-source")
	}
	hasGen := false
	for i := range vShape {
		hasGen = hasGen || len(vShape[i].gens) > 0
	}
	if hasGen {
		kinds = append(kinds, "delete-output")
	}
	if vHasDir {
		kinds = append(kinds, "dir-content", "dir-rename", "dir-add", "dir-remove")
	}
	if vAllowBreak {
		kinds = append(kinds, "break-dependency")
	}
	if names := vFunctionNames(); len(vSpec(names[len(names)-1]).deps) >= 2 {
		kinds = append(kinds, "drop-dependency")
	}
	switch kinds[vChoose("edit", len(kinds))] {
	case "nothing":
		vReach("edit-nothing")
	case "content":
		src := vPlain[vChoose("which-source", len(vPlain))]
		p := vRoot + "/" + src
		c := vSymByte("new-content")
		if n, ok := vFS[p]; !ok || c != n.content {
			vTouch(src)
			vReach("edit-content")
		} else {
			vReach("edit-same-content-rewrite")
		}
		vWriteFile(p, c)
	case "delete-source":
		// a declared source that does not exist (any more): its checksum is the empty string
		src := vPlain[vChoose("which-source", len(vPlain))]
		if _, ok := vFS[vRoot+"/"+src]; ok {
			vRemove(vRoot + "/" + src)
			vTouch(src)
			vReach("edit-delete-source")
		}
	case "env":
		names := vFunctionNames()
		n := names[vChoose("which-function", len(names))]
		t := vSymByte("new-env")
		if t != vEnvTok[n] {
			vTouch("env:" + n)
			vReach("edit-env")
		}
		vEnvTok[n] = t
	case "delete-output":
		for i := range vShape {
			for _, g := range vShape[i].gens {
				if _, ok := vFS[vRoot+"/"+g]; ok {
					vRemove(vRoot + "/" + g)
					vTouch("out:" + g)
					vReach("edit-delete-output")
					return
				}
			}
		}
	case "drop-dependency":
		// a BUILD file edit that removes (or restores) the top target's last dependency — the edge
		// and the dependency target itself — while the top target's function stays the same: the
		// dependency list is not part of the up-to-date check, so the target stays up to date (and
		// must keep its record through a collection, although the record still names the removed label)
		names := vFunctionNames()
		top := names[len(names)-1]
		if vDropped[top] && vCollectedWhileDropped {
			// C14 quantifies over histories in which a removed label is not re-created after a
			// collection (forgetting it is the point of collecting): restoring the edge now is outside
			vReach("edit-nothing")
			break
		}
		vDropped[top] = !vDropped[top]
		vReach("edit-drop-dependency")
	case "break-dependency":
		// a BUILD file edit that makes the top target depend on a label that names no target (a
		// typo), or repairs it again
		names := vFunctionNames()
		top := names[len(names)-1]
		vBroken[top] = !vBroken[top]
		vReach("edit-break-dependency")
	case "dir-content":
		p := vRoot + "/" + vDirEntries[vChoose("which-entry", len(vDirEntries))]
		if n, ok := vFS[p]; ok {
			c := vSymByte("new-content")
			if c != n.content {
				vTouch("d")
				vReach("edit-dir-content")
			}
			vWriteFile(p, c)
		}
	case "dir-rename":
		// rename inside the source directory (contents unchanged)
		if n, ok := vFS[vRoot+"/d/x.txt"]; ok {
			vRemove(vRoot + "/d/x.txt")
			vWriteFile(vRoot+"/d/z.txt", n.content)
			vRenamed = true
			vTouch("d")
			vReach("edit-dir-rename")
		}
	case "dir-add":
		if _, ok := vFS[vRoot+"/d/w.txt"]; !ok {
			vWriteFile(vRoot+"/d/w.txt", vSymByte("new-content"))
			vRenamed = true // the set of entry names changed
			vTouch("d")
			vReach("edit-dir-add")
		}
	case "dir-remove":
		if _, ok := vFS[vRoot+"/d/y.txt"]; ok {
			vRemove(vRoot + "/d/y.txt")
			vRenamed = true
			vTouch("d")
			vReach("edit-dir-remove")
		}
	}
}

type vBuildResult struct {
	target            string
	opts              *RunOptions
	loadErr, buildErr error
	crashed           bool
}

// vRunBuild performs one load+build of a symbolic target with symbolic flags and failing bodies and
// applies the per-build oracles.
func vRunBuild(tag string) vBuildResult {
	names := vFunctionNames()
	tn := names[len(names)-1-vChoose("build-target-"+tag, len(names))] // alternative 0 = the top target
	var opts *RunOptions
	always, dry := false, false
	if vAllowAlways && vNondetBool("always") {
		always = true
	}
	if vAllowDry && vNondetBool("dry-run") {
		dry = true
	}
	if always || dry {
		opts = &RunOptions{Always: always, DryRun: dry}
	}
	vFail = map[string]bool{}
	if vAllowFail {
		if k := vChoose("failing-body", len(names)+1); k > 0 {
			vFail[names[k-1]] = true
		}
	}
	return vBuildOf(tn, opts)
}

func vBuildOf(tn string, opts *RunOptions) vBuildResult {
	vBuildNo++
	before := vSnapshot()
	wouldRun := vC02Expect(opts)
	loadErr, buildErr, crashed := vBuild(vLabelOf(vSpec(tn)), opts)
	vEvalIn[vBuildNo] = map[string]bool{}
	for _, l := range vCompleted {
		vEvalIn[vBuildNo][vNameOf(l)] = true
	}
	vBodyRanIn[vBuildNo] = map[string]bool{}
	for _, r := range vRan {
		if vFail[r] && !crashed {
			// the body ran and failed in a process that lived to record the failure: the re-run
			// flag, not the dependency's stamp, is what must protect this target afterwards
			vBodyRanIn[vBuildNo][r] = true
		}
	}
	for _, r := range vRan {
		if vLastOK[r] && !vFail[r] {
			if _, pending := vPending[r]; !pending {
				vExecBuild[r] = vBuildNo
			}
		}
	}
	res := vBuildResult{tn, opts, loadErr, buildErr, crashed}
	if crashed {
		return res
	}
	vAssert(loadErr == nil, "C03: the persisted state does not load")
	if loadErr != nil {
		return res
	}
	vCheckEvents(res)
	if opts != nil && opts.DryRun {
		vCheckDry(before)
		return res
	}
	vCheckC02(wouldRun)
	if buildErr == nil {
		vReach("build-succeeded")
		vCheckC01(tn)
	} else {
		vReach("build-failed")
		broken := false
		for _, b := range vBroken {
			broken = broken || b
		}
		vAssert(len(vFail) > 0 || broken || len(vFaulted) > 0, "a build failed although no body fails")
	}
	return res
}

// ---------------------------------------------------------------- C01

// vCheckC01: after a build of tn that reported success, every function target in tn's closure has
// executed successfully since the latest change of each of its own inputs and since the latest
// successful execution of each of its dependencies.
func vCheckC01(tn string) {
	closure := map[string]bool{}
	vClosure(tn, closure)
	for i := range vShape {
		s := &vShape[i]
		if !closure[s.name] {
			continue
		}
		t := vExec[s.name]
		vAssert(t > 0, "C01: a target in the closure of a successful build never executed")
		// its own inputs (code and referenced values, source trees with names and contents, presence
		// of declared outputs) have the values they had when it last executed successfully: an edit
		// that is undone before the next build needs no re-execution (the outputs equal those of a
		// from-scratch build), any other edit does
		if s.name == "gen" || vHasDir {
			vRegion("D7-rename-inside-source-directory", vRenamed)
		}
		vAssert(vSaw[s.name] == vInputsOf(s.name), "C01: stale: an input changed since the target last executed successfully")
		for _, g := range s.gens {
			_, present := vFS[vRoot+"/"+g]
			vAssert(present, "C01: a declared output is missing after a successful build")
		}
		for _, d := range vDependenciesOf(s.name) {
			// known finding D6: the dependency last executed in a process that did not evaluate this
			// target to completion (a partial build of the dependency, or the process died first):
			// that a dependency re-executed is remembered only in memory, and a function's persisted
			// stamp does not change when it re-executes
			vRegion("D6-dependency-built-alone", vExecBuild[d] > 0 && !vEvalIn[vExecBuild[d]][s.name] && !vBodyRanIn[vExecBuild[d]][s.name])
			vAssert(t > vExec[d], "C01: not re-executed after a dependency executed")
		}
	}
}

// ---------------------------------------------------------------- C02

// vC02Expect computes, before the build, the function targets that must NOT execute: those whose
// own input values are what they were at their last successful execution, whose last attempt did
// not fail, that are not forced, and whose dependencies have not executed since.
func vC02Expect(opts *RunOptions) map[string]bool {
	quiet := map[string]bool{}
	if vAfterCrash || vKeepProject || (opts != nil && (opts.Always || opts.DryRun)) {
		return quiet // C02 speaks about freshly loaded projects only
	}
	for i := range vShape {
		s := &vShape[i]
		if s.always || vExec[s.name] == 0 || !vLastOK[s.name] || vGone(s.name) {
			continue
		}
		if vSaw[s.name] != vInputsOf(s.name) {
			continue
		}
		ok := true
		for _, d := range vDependenciesOf(s.name) {
			ok = ok && vExec[d] < vExec[s.name]
		}
		if ok {
			quiet[s.name] = true
		}
	}
	return quiet
}

// vCheckC02: a target that was quiet before the build executes only if one of its dependencies
// executed in this build.
func vCheckC02(quiet map[string]bool) {
	for i := range vShape {
		s := &vShape[i]
		if !quiet[s.name] || !vRanBody(s.name) {
			continue
		}
		depRan := false
		for _, d := range vDependenciesOf(s.name) {
			depRan = depRan || vRanBody(d)
		}
		vAssert(depRan, "C02: a target none of whose inputs changed was re-executed")
	}
}

// ---------------------------------------------------------------- C13 / C18

type vSnap struct {
	files   string
	records map[string]targetInfo
}

func vSnapshot() vSnap {
	if vNative() {
		return vSnapshotNative()
	}
	s := vSnap{records: map[string]targetInfo{}}
	for _, p := range vOrder {
		n, ok := vFS[p]
		if !ok || n.dir {
			continue
		}
		if len(p) > len(vWork) && p[:len(vWork)] == vWork {
			if n.rec != nil {
				s.records[p] = *vCopyInfo(*n.rec)
			}
			continue
		}
		s.files += p + "=" + n.content + ";"
	}
	return s
}

func vSameInfo(a, b targetInfo) bool {
	if a.Doc != b.Doc || a.Data != b.Data || a.Rerun != b.Rerun || len(a.Dependencies) != len(b.Dependencies) {
		return false
	}
	for k, v := range a.Dependencies {
		if w, ok := b.Dependencies[k]; !ok || v != w {
			return false
		}
	}
	return true
}

// vCheckDry: a dry run calls no body (asserted in vCall), changes no project file, and leaves the
// persisted records semantically unchanged: the load that precedes every run refreshes each
// function's record, which rewrites existing records with identical content and creates an empty
// record where there was none; absent and empty are the same state to loadTargetInfo.
func vCheckDry(before vSnap) {
	after := vSnapshot()
	vAssert(len(vRan) == 0, "C13: a dry run executed a target body")
	vAssert(before.files == after.files, "C13: a dry run changed a project file")
	for p, a := range after.records {
		b := before.records[p] // absent = empty record
		vAssert(vSameInfo(a, b), "C13: a dry run changed persisted build state")
	}
	for p, b := range before.records {
		a := after.records[p]
		vAssert(vSameInfo(a, b), "C13: a dry run removed persisted build state")
	}
	vReach("dry-run-checked")
}

// vPrintsPerBody: the lines of output one execution of a body produces: the model body writes one
// unterminated line; the shell body of a native replay writes two (sh.exec echoes its command).
func vPrintsPerBody() int {
	if vNative() {
		return 2
	}
	return 1
}

// vCheckEvents: per-label event protocol and run-done.
func vCheckEvents(res vBuildResult) {
	per := map[string][]string{}
	var order []string
	runDone := 0
	last := ""
	for _, e := range vEvents {
		if e.label == "" {
			runDone++
			last = e.kind
			continue
		}
		vAssert(runDone == 0, "C18: an event was delivered after run-done")
		if _, ok := per[e.label]; !ok {
			order = append(order, e.label)
		}
		per[e.label] = append(per[e.label], e.kind)
	}
	vAssert(runDone == 1, "C18: run-done not delivered exactly once")
	vAssert((last == "run-done:error") == (res.buildErr != nil), "C18: run-done does not carry the build's error")
	dry := res.opts != nil && res.opts.DryRun
	for _, l := range order {
		seq := per[l]
		name := vNameOf(l)
		body, prints := 0, 0
		var prot []string
		for _, k := range seq {
			if k == "body" {
				body++
				// the body runs between evaluating and completion
				vAssert(len(prot) == 1 && prot[0] == "evaluating", "C18: a body ran outside evaluating..completion")
				continue
			}
			if k == "print" {
				vAssert(len(prot) == 1 && prot[0] == "evaluating", "C18: output delivered outside evaluating..completion")
				prints++
				continue
			}
			prot = append(prot, k)
		}
		ok := false
		switch len(prot) {
		case 1:
			ok = prot[0] == "up-to-date" || prot[0] == "failed"
			if prot[0] == "failed" {
				// a lone failed event: only when nothing of the target itself ran
				vAssert(body == 0, "C18: lone failed event although the body ran")
			}
		case 2:
			ok = prot[0] == "evaluating" && (prot[1] == "succeeded" || prot[1] == "failed")
		}
		vAssert(ok, "C18: a target's events are not one of the allowed sequences")
		// every body writes one unterminated line: it is delivered exactly once per execution
		vAssert(prints == body*vPrintsPerBody(), "C18: a body's output was not delivered exactly once before its completion")
		evaluating := len(prot) >= 1 && prot[0] == "evaluating"
		if _, isFn := vBodies[name]; isFn && l == vLabelOf(vSpec(name)) {
			if dry {
				vAssert(body == 0, "C13: a dry run executed a target body")
			} else {
				vAssert((body == 1) == evaluating && body <= 1, "C18: evaluating is not reported exactly when the body runs")
			}
			if len(prot) == 2 && !dry {
				vAssert((prot[1] == "failed") == (vFail[name] || vFaulted[name]), "C18: completion event does not match the body's outcome")
			}
		}
	}
}

func vEvaluatingSet() map[string]bool {
	out := map[string]bool{}
	for _, e := range vEvents {
		if e.kind == "evaluating" {
			out[e.label] = true
		}
	}
	return out
}

// ---------------------------------------------------------------- harness entry points

var vCollectedWhileDropped bool

var vPlans = []string{"", "EB", "EBB", "BEB", "EEB", "EBE", "G", "EBG", "GEB", "EG", "EGE"}

// vCollect: `dawn gc` — a fresh load of the project followed by Project.GC. It must not change what
// the following builds execute (C14), which the C01/C02 oracles of the later builds then check.
func vCollect() {
	proj, err := vLoadForGC()
	vAssert(err == nil, "C14: the project does not load for a collection")
	if err != nil {
		return
	}
	var gcErr error
	if vNative() {
		gcErr = vRunGCNative(proj)
	} else {
		gcErr = proj.GC()
	}
	vAssert(gcErr == nil, "C14: the collection fails")
	for _, d := range vDropped {
		vCollectedWhileDropped = vCollectedWhileDropped || d
	}
	for _, p := range vRemoved {
		vAssert(len(p) > len(vWork) && p[:len(vWork)+1] == vWork+"/", "C14: the collection removed something outside the build directory")
	}
	vReach("collected")
}

func vSetup() {
	vInit(vParam("shape"))
	vKeepProject = vParam("reload") == 0
	vAllowFail = vParam("fail") == 1
	vAllowAlways = vParam("always") == 1
}

// VHarnessHistory: first build, then vParam("steps") arbitrary steps (each an edit or a build of any
// target), then a final build of the top target; C01, C02 and C18 are checked at every build.
func VHarnessHistory() {
	vSetup()
	names := vFunctionNames()
	top := names[len(names)-1]
	keep := vKeepProject
	vKeepProject = false // the initial builds are separate processes
	if vParam("first") == 1 {
		r := vBuildOf(top, nil)
		vAssert(r.buildErr == nil, "first build of an intact tree fails")
		for _, n := range names {
			vAssert(vRanBody(n), "C01: the first build does not execute every target")
		}
		// rebuilding the unchanged tree executes nothing that is not forced
		r = vBuildOf(top, nil)
		for _, n := range names {
			if !vSpec(n).always && !vDependsOnAlways(n) && !vKeepProject {
				vAssert(!vRanBody(n), "C02: rebuilding an unchanged tree executed a target")
			}
		}
	}
	vKept, vKeepProject = nil, keep // the steps below start from a freshly loaded project (kept for all of them when reload=0)
	vSteps()
	vFail = map[string]bool{}
	vBroken = map[string]bool{}
	// (a removed target stays removed: a removed label is not re-created after a collection)
	r := vBuildOf(top, nil)
	vAssert(r.buildErr == nil, "a build without failing bodies fails")
	vReach("history-done")
}

// vSteps: vParam("steps") steps, each an edit or a build (a free choice), or — when a plan is given —
// exactly the plan's sequence of edits (E) and builds (B).
func vSteps() {
	plan := vPlans[vParam("plan")]
	n := vParam("steps")
	if plan != "" {
		n = len(plan)
	}
	for i := 0; i < n; i++ {
		kind := byte('B')
		if plan != "" {
			kind = plan[i]
		} else if vChoose("step-kind", 2) == 0 {
			kind = 'E'
		}
		switch kind {
		case 'E':
			vEdit()
		case 'G':
			vCollect()
		default:
			vRunBuild("mid")
		}
	}
}

func vDependsOnAlways(name string) bool {
	for _, d := range vDependenciesOf(name) {
		if vSpec(d).always || vDependsOnAlways(d) {
			return true
		}
	}
	return false
}

// VHarnessSaveFault: a symbolic history, then a build during which one (solver-chosen) creation of a
// record's temp file fails after the load — a target's record cannot be saved although its body ran.
// The target's events must still be one allowed sequence with exactly one completion, the failure is
// reported (failed, run-done with the error), and a later build without faults is correct (C01).
func VHarnessSaveFault() {
	vSetup()
	names := vFunctionNames()
	top := names[len(names)-1]
	if vParam("first") == 1 {
		vBuildOf(top, nil)
	}
	vSteps()
	vFail = map[string]bool{}
	vFaultAt = vChoose("save-fault-at", 2*len(names))
	vFaultSeen = 0
	r := vBuildOf(top, &RunOptions{Always: vAllowAlways && vNondetBool("always")})
	if len(vFaulted) > 0 {
		vReach("faulted-build-checked")
	}
	_ = r
	vFaultAt = -1
	vFaulted = map[string]bool{}
	vBroken = map[string]bool{}
	r = vBuildOf(top, nil)
	vAssert(r.buildErr == nil, "a build without failing bodies fails")
	vReach("history-done")
}

// VHarnessHistoryIndexed: VHarnessHistory with index.json written by every full load and `dawn gc`
// loading the project from the index, as the command line does; ignore=1 gives the project an ignore
// list (third_party/**) — shape 6 has a source below the ignored directory.
func VHarnessHistoryIndexed() {
	vIndexMode = true
	vIgnoring = vParam("ignore") == 1
	VHarnessHistory()
}

// VHarnessHistoryTwin: reachability twin.
func VHarnessHistoryTwin() {
	vInit(0)
	if r := vBuildOf("top", nil); r.buildErr == nil && vRanBody("gen") {
		vAssert(false, "twin")
	}
}

// ---------------------------------------------------------------- C13: dry run x real build product

// vDownstreamOf: function targets that depend (transitively) on name.
func vDownstreamOf(name string) map[string]bool {
	out := map[string]bool{}
	changed := true
	for changed {
		changed = false
		for i := range vShape {
			s := vShape[i].name
			if out[s] {
				continue
			}
			for _, d := range vDependenciesOf(s) {
				if d == name || out[d] {
					out[s] = true
					changed = true
				}
			}
		}
	}
	return out
}

// VHarnessDry: after a symbolic history, a dry run and then a real build of the same target with
// the same flags from the same state. The dry run executes no body and leaves files and persisted
// state unchanged (checked in vBuildOf); it reports exactly the targets the real build attempts —
// identical when the real build succeeds, identical apart from targets downstream of the failure
// when a body fails.
func VHarnessDry() {
	vSetup()
	names := vFunctionNames()
	top := names[len(names)-1]
	if vParam("first") == 1 {
		vBuildOf(top, nil)
	}
	vAllowBreak = true
	keep := vKeepProject
	vKeepProject = false // the history before the product consists of separate processes
	vSteps()
	vKept, vKeepProject = nil, keep // the dry run and the real build share one loaded project when reload=0
	tn := names[len(names)-1-vChoose("build-target", len(names))]
	always := vAllowAlways && vNondetBool("always")
	vFail = map[string]bool{}
	vBuildOf(tn, &RunOptions{DryRun: true, Always: always})
	dry := vEvaluatingSet()
	var failing string
	if k := vChoose("failing-body", len(names)+1); k > 0 {
		failing = names[k-1]
		vFail[failing] = true
	}
	var opts *RunOptions
	if always {
		opts = &RunOptions{Always: true}
	}
	r := vBuildOf(tn, opts)
	real := vEvaluatingSet()
	for l := range real {
		if sp, isFn := vBodies[vNameOf(l)]; isFn && l == vLabelOf(sp) {
			vAssert(vRanBody(sp.name), "C13: after a dry run the real build reports a target as evaluating without executing it")
		}
	}
	if vBroken[top] && failing == "" {
		vReach("dry-vs-broken-real") // both fail at the missing dependency; state checks already done
		return
	}
	if r.buildErr == nil {
		for l := range dry {
			vAssert(real[l], "C13: the dry run reported a target the real build did not attempt")
		}
		for l := range real {
			vAssert(dry[l], "C13: the real build attempted a target the dry run did not report")
		}
		vReach("dry-equals-real")
	} else {
		down := vDownstreamOf(failing)
		for l := range real {
			vAssert(dry[l], "C13: the real build attempted a target the dry run did not report")
		}
		for l := range dry {
			if !real[l] {
				n := vNameOf(l)
				gen := false // a generated source downstream of the failure
				for d := range down {
					for _, g := range vSpec(d).sources {
						gen = gen || ("source://"+vDirOf(g)+":"+vBase(g)) == l
					}
				}
				for _, g := range vSpec(failing).gens {
					gen = gen || l == vSourceLabel(g)
				}
				vAssert(down[n] || gen, "C13: dry run and failing real build differ outside the failure's downstream")
			}
		}
		vReach("dry-vs-failing-real")
	}
}

// VHarnessDryFault: a symbolic history, then a dry run during which one (solver-chosen) os.Open or
// os.Stat of the up-to-date checks fails with an I/O error: whatever the dry run reports, it has no
// effects (C13) — and the real build that follows, without faults, behaves as if the dry run had
// not happened (the C01/C02 oracles of every build).
func VHarnessDryFault() {
	vSetup()
	names := vFunctionNames()
	top := names[len(names)-1]
	if vParam("first") == 1 {
		vBuildOf(top, nil)
	}
	vSteps()
	tn := names[len(names)-1-vChoose("build-target", len(names))]
	vFail = map[string]bool{}
	before := vSnapshot()
	vReadFaultAt = vChoose("read-fault-at", vParam("faults"))
	vReadFaultSeen, vReadFaulted = 0, false
	vBuildNo++
	loadErr, _, crashed := vBuild(vLabelOf(vSpec(tn)), &RunOptions{DryRun: true})
	vReadFaultAt = -1
	vAssert(loadErr == nil && !crashed, "C13: a dry run with a read fault does not load or crashes")
	vCheckDry(before)
	if vReadFaulted {
		vReach("faulted-dry-run-checked")
	}
	vBroken = map[string]bool{}
	vBuildOf(tn, nil)
	vReach("history-done")
}

func vDirOf(p string) string {
	i := -1
	for j := 0; j < len(p); j++ {
		if p[j] == '/' {
			i = j
		}
	}
	if i < 0 {
		return ""
	}
	return p[:i]
}

func vSourceLabel(p string) string { return "source://" + vDirOf(p) + ":" + vBase(p) }

// ---------------------------------------------------------------- C03: crashes and failures

// VHarnessCrash: first build; one symbolic edit; then a build of the top target that dies at the
// vParam("crash")-th persistent effect (state-file mkdir / temp creation / write / rename, body
// start / output write / end, the record refresh at load) or in which a body fails; then a fresh
// load, which must succeed, and a build, after which C01's oracle must hold: nothing that did not
// complete against its current inputs is remembered as up to date.
func VHarnessCrash() {
	vSetup()
	names := vFunctionNames()
	top := names[len(names)-1]
	r := vBuildOf(top, nil)
	vAssert(r.buildErr == nil, "first build of an intact tree fails")
	vEdit()
	if vParam("edits") == 2 {
		vEdit()
	}
	// an edit may have removed a target from the project: only targets that exist are built
	names = vFunctionNames()
	vFail = map[string]bool{}
	if k := vChoose("failing-body", len(names)+1); k > 0 {
		vFail[names[k-1]] = true
	}
	vOps, vCrashAt = 0, vParam("crash")
	tn := names[len(names)-1-vChoose("crashing-build-target", len(names))]
	r = vBuildOf(tn, nil)
	vCrashAt = -1
	if r.crashed {
		vReach("crash-explored")
		// a body that had finished when the process died has executed, but nothing records it: the
		// next build may legitimately run it again (C02 is not asserted for that build)
		vAfterCrash = true
	} else {
		vReach("no-crash-at-this-index")
	}
	vFail = map[string]bool{}
	if vIndexMode {
		// `dawn gc` after the crash: the index may be missing, truncated (it is written in place) or
		// older than the records; it must never be required, and the collection must not disturb
		// the recovery
		vCollect()
	}
	r = vBuildOf(top, nil)
	vAfterCrash = false
	vAssert(r.loadErr == nil && r.buildErr == nil, "C03: the build after a crash or failure does not succeed")
	// and the tree is then in the state an uninterrupted build leaves: a further build executes nothing
	r = vBuildOf(top, nil)
	for _, n := range names {
		if !vSpec(n).always && !vDependsOnAlways(n) {
			vAssert(!vRanBody(n), "C03: not converged: a build of the recovered tree still executes targets")
		}
	}
	vReach("recovered")
}

// VHarnessCrashIndexed: VHarnessCrash with index.json written (in place) by every full load — two more
// crash points per load — and a collection that prefers the index between the crash and the recovery.
func VHarnessCrashIndexed() {
	vIndexMode = true
	VHarnessCrash()
}

var vAfterCrash bool
