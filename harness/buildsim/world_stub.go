//go:build purego

package dawn

// Stand-ins for world_native.go in the engine build (vNative() is false there: none is ever called).

func vRealWrite(p, content string)                   {}
func vRealRemove(p string)                           {}
func vLoadNative(preferIndex bool) (*Project, error) { return nil, nil }
func vPreBuildNative()                               {}
func vPostBuildNative()                              {}
func vRunGCNative(proj *Project) error               { return nil }
func vSnapshotNative() vSnap                         { return vSnap{} }
