//go:build purego

package dawn

// vScenarioNative: see conform_native.go (never called in the engine: vNative() is false there).
func vScenarioNative(sc vScenario) {}
