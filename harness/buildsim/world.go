package dawn

import (
	"encoding/base64"
	"encoding/json"
	"hash"
	"io"
	"io/fs"
	"net/url"
	"os"
	"regexp"
	"strings"
	"sync"
	"time"

	"github.com/pgavlin/dawn/diff"
	"github.com/pgavlin/dawn/label"
	"github.com/pgavlin/dawn/pickle"
	"github.com/pgavlin/dawn/runner"
	"go.starlark.net/starlark"
)

// buildsim: the build-decision kernel of dawn executed from its SSA over a modelled environment.
//
// REAL (interpreted from the working tree): runTarget.Evaluate; function.{load, info, dependencies,
// generates, upToDate, diffEnv, evaluate}; sourceFile.{load, upToDate, evaluate, dependencies};
// fileSum, dirSum; Project.{loadFunction, loadSourceFile, link, LoadTarget, Run, saveTargetInfo,
// loadTargetInfo, targetInfoPath, GC}; RunOptions.apply; label.Parse/String; sourceLabel.
//
// MODELLED (this file): the file system (source files and directories, generated files, record and
// temp files: rename is atomic; a crash keeps what was renamed and nothing of an un-renamed temp),
// SHA-256 (an injective function of the bytes hashed), JSON/base64 (what is encoded is what is
// decoded), Starlark bodies (a body may fail; it rewrites its declared outputs with content derived
// from its current inputs), function environments (a token whose equality is symbolic; the
// fingerprint is an injective function of the token — that fingerprints are faithful is C07/C08's
// business), the runner (each target evaluated once per build, dependencies first — C04), and the
// target() builtin's composition of a target from its arguments (replicated in vLoadProject).

var vStubTable = map[string]string{
	"os.Open":                             "vOpen",
	"os.Stat":                             "vStat",
	"os.Lstat":                            "vStat", // the modelled file system has no symbolic links
	"os.IsNotExist":                       "vIsNotExist",
	"os.MkdirAll":                         "vMkdirAll",
	"os.CreateTemp":                       "vCreateTemp",
	"os.Create":                           "vCreate",
	"(*regexp.Regexp).MatchString":        "vIgnoreMatch",
	"os.Rename":                           "vRename",
	"os.RemoveAll":                        "vRemoveAll",
	"(*os.File).Stat":                     "vFileStat",
	"(*os.File).ReadDir":                  "vFileReadDir",
	"(*os.File).Name":                     "vFileName",
	"(*os.File).Close":                    "vFileClose",
	"path/filepath.WalkDir":               "vWalkDir",
	"crypto/sha256.New":                   "vSHANew",
	"encoding/hex.EncodeToString":         "vHexEncode",
	"github.com/pgavlin/dawn/util.SHA256": "vSHA256",
	"encoding/json.NewEncoder":            "vJSONNewEncoder",
	"(*encoding/json.Encoder).Encode":     "vJSONEncode",
	"encoding/json.NewDecoder":            "vJSONNewDecoder",
	"(*encoding/json.Decoder).Decode":     "vJSONDecode",
	"github.com/pgavlin/dawn.functionEnv": "vFunctionEnv",
	"(*github.com/pgavlin/dawn.function).newThread":    "vNewThread",
	"go.starlark.net/starlark.Call":                    "vCall",
	"(*github.com/pgavlin/dawn/pickle.Encoder).Encode": "vPickleEncode",
	"(*github.com/pgavlin/dawn/pickle.Decoder).Decode": "vPickleDecode",
	"github.com/pgavlin/dawn/pickle.NewEncoder":        "vNewEncoder",
	"github.com/pgavlin/dawn/pickle.NewDecoder":        "vNewDecoder",
	"encoding/base64.NewEncoder":                       "vB64Enc",
	"encoding/base64.NewDecoder":                       "vB64Dec",
	"github.com/pgavlin/dawn/runner.Run":               "vSeqRun",
}

// read as zero and passed straight into the stubbed base64.NewEncoder/NewDecoder
var vZeroOK = []string{"encoding/base64.StdEncoding"}

const (
	vRoot = "/p"
	vWork = "/p/.dawn/build"
	vTemp = "/p/.dawn/build/temp"
)

type vErrT string

func (e vErrT) Error() string { return string(e) }

var vErrNotExist = vErrT("no such file or directory")

func vIsNotExist(err error) bool { return err == vErrNotExist || err == fs.ErrNotExist }

// ---------------------------------------------------------------- file system

type vNode struct {
	dir     bool
	content string      // bytes of a source or generated file
	rec     *targetInfo // a record file's decoded content (nil until written)
	idx     *index      // the index file's decoded content (nil until written: truncated / empty)
}

var (
	vFS      = map[string]*vNode{}
	vOrder   []string // creation order of paths (directory listings are sorted by name, see vChildren)
	vHandles = map[*os.File]string{}
	vTempSeq int
	vRemoved []string
)

func vParent(p string) string {
	i := strings.LastIndexByte(p, '/')
	if i <= 0 {
		return "/"
	}
	return p[:i]
}

func vBase(p string) string { return p[strings.LastIndexByte(p, '/')+1:] }

func vMkdirs(p string) {
	if p == "/" || p == "" {
		return
	}
	if _, ok := vFS[p]; ok {
		return
	}
	vMkdirs(vParent(p))
	vFS[p] = &vNode{dir: true}
	vOrder = append(vOrder, p)
}

func vPut(p string, n *vNode) {
	vMkdirs(vParent(p))
	if _, ok := vFS[p]; !ok {
		vOrder = append(vOrder, p)
	}
	vFS[p] = n
}

func vWriteFile(p, content string) {
	vPut(p, &vNode{content: content})
	if vNative() {
		vRealWrite(p, content)
	}
}

func vRemove(p string) {
	if vNative() {
		vRealRemove(p)
	}
	for q := range vFS {
		if q == p || strings.HasPrefix(q, p+"/") {
			delete(vFS, q)
		}
	}
}

// vChildren lists a directory. The order is a fixed function of the set of names (sorted), as on the
// file systems of this sandbox: ReadDir's documentation leaves it unspecified, and dirSum does not
// sort — excluded by assumption (DESIGN.md, C02).
func vChildren(dir string) []string {
	var out []string
	for _, p := range vOrder {
		if _, ok := vFS[p]; ok && vParent(p) == dir {
			dup := false
			for _, q := range out {
				dup = dup || q == p
			}
			if !dup {
				out = append(out, p)
			}
		}
	}
	for i := 1; i < len(out); i++ {
		for j := i; j > 0 && vBase(out[j]) < vBase(out[j-1]); j-- {
			out[j], out[j-1] = out[j-1], out[j]
		}
	}
	return out
}

type vInfo struct {
	name string
	dir  bool
}

func (i vInfo) Name() string       { return i.name }
func (i vInfo) Size() int64        { return 0 }
func (i vInfo) Mode() fs.FileMode  { return 0 }
func (i vInfo) ModTime() time.Time { return time.Time{} }
func (i vInfo) IsDir() bool        { return i.dir }
func (i vInfo) Sys() any           { return nil }

type vDirEntry struct{ vInfo }

func (e vDirEntry) Type() fs.FileMode          { return 0 }
func (e vDirEntry) Info() (fs.FileInfo, error) { return e.vInfo, nil }

// read-fault injection (C13 dry-fault unit): the vReadFaultAt-th os.Open / os.Stat made while targets
// run fails with an error that is not "does not exist" (EIO, EACCES, ENOTDIR)
var (
	vReadFaultAt   = -1
	vReadFaultSeen int
	vReadFaulted   bool
)

func vReadFault() bool {
	if vInRun && vReadFaultAt >= 0 {
		vReadFaultSeen++
		if vReadFaultSeen-1 == vReadFaultAt {
			vReadFaulted = true
			vReach("read-faulted")
			return true
		}
	}
	return false
}

func vOpen(name string) (*os.File, error) {
	if vReadFault() {
		return nil, vErrT("input/output error")
	}
	if _, ok := vFS[name]; !ok {
		return nil, vErrNotExist
	}
	f := &os.File{}
	vHandles[f] = name
	return f, nil
}

func vStat(name string) (os.FileInfo, error) {
	if vReadFault() {
		return nil, vErrT("input/output error")
	}
	n, ok := vFS[name]
	if !ok {
		return nil, vErrNotExist
	}
	return vInfo{vBase(name), n.dir}, nil
}

func vFileStat(f *os.File) (os.FileInfo, error) { return vStat(vHandles[f]) }
func vFileName(f *os.File) string               { return vHandles[f] }
func vFileClose(f *os.File) error               { return nil }

func vFileReadDir(f *os.File, n int) ([]os.DirEntry, error) {
	var out []os.DirEntry
	for _, c := range vChildren(vHandles[f]) {
		out = append(out, vDirEntry{vInfo{vBase(c), vFS[c].dir}})
	}
	return out, nil
}

func vMkdirAll(path string, perm os.FileMode) error {
	vTick("mkdir")
	vMkdirs(path)
	return nil
}

// fault injection (C18 save-fault unit): the vFaultAt-th temp file created while targets run cannot
// be created (disk full, work directory removed)
var (
	vInRun     bool
	vFaultAt   = -1
	vFaultSeen int
	vFaulted   = map[string]bool{} // name of the target being evaluated when the fault struck
)

func vCreateTemp(dir, pattern string) (*os.File, error) {
	vTick("create-temp")
	if vInRun && vFaultAt >= 0 {
		vFaultSeen++
		if vFaultSeen-1 == vFaultAt {
			for i := len(vEvents) - 1; i >= 0; i-- {
				if vEvents[i].kind == "evaluating" {
					vFaulted[vNameOf(vEvents[i].label)] = true
					break
				}
			}
			vReach("save-faulted")
			return nil, vErrT("no space left on device")
		}
	}
	if n, ok := vFS[dir]; !ok || !n.dir {
		return nil, vErrNotExist
	}
	vTempSeq++
	name := dir + "/tmp" + string(rune('0'+vTempSeq%10)) + string(rune('a'+vTempSeq/10))
	vPut(name, &vNode{})
	f := &os.File{}
	vHandles[f] = name
	return f, nil
}

// vCreate: os.Create — the file is created or truncated in place (the index is written this way:
// a process that dies before the encode leaves an empty file, which does not decode)
func vCreate(name string) (*os.File, error) {
	vTick("create")
	if n, ok := vFS[vParent(name)]; !ok || !n.dir {
		return nil, vErrNotExist
	}
	vPut(name, &vNode{})
	f := &os.File{}
	vHandles[f] = name
	return f, nil
}

// vIgnoreMatch: the project's ignore list, modelled as the single pattern third_party/** (how glob
// sets match is C17's subject); only consulted where the code under test asks proj.ignored
func vIgnoreMatch(re *regexp.Regexp, s string) bool {
	return strings.HasPrefix(s, "third_party/")
}

func vRename(oldpath, newpath string) error {
	vTick("rename")
	n, ok := vFS[oldpath]
	if !ok {
		return vErrNotExist
	}
	if _, ok := vFS[vParent(newpath)]; !ok {
		return vErrNotExist
	}
	delete(vFS, oldpath)
	vPut(newpath, n) // atomic: the destination is either the old or the new file
	for name, pe := range vPending {
		sp := vBodies[name]
		if newpath == vWork+"/targets/"+url.PathEscape(sp.pkg[2:]+"/"+sp.name) {
			vExec[name], vSaw[name], vLastOK[name] = pe.at, pe.saw, true
			delete(vPending, name)
		}
	}
	vTick("after-rename")
	return nil
}

func vRemoveAll(path string) error {
	vRemoved = append(vRemoved, path)
	vRemove(path)
	return nil
}

// filepath.WalkDir: lexical order, a directory before its children, SkipDir, a vanished directory is
// reported to the callback with an error.
func vWalk(path string, fn fs.WalkDirFunc) error {
	n := vFS[path]
	err := fn(path, vDirEntry{vInfo{vBase(path), n.dir}}, nil)
	if err != nil || !n.dir {
		if err == fs.SkipDir && n.dir {
			err = nil
		}
		return err
	}
	if _, still := vFS[path]; !still {
		err = fn(path, vDirEntry{vInfo{vBase(path), true}}, vErrNotExist)
		if err == fs.SkipDir {
			return nil
		}
		return err
	}
	for _, c := range vChildren(path) {
		if _, ok := vFS[c]; !ok {
			continue
		}
		if err := vWalk(c, fn); err != nil {
			if err == fs.SkipDir {
				break
			}
			return err
		}
	}
	return nil
}

func vWalkDir(root string, fn fs.WalkDirFunc) error {
	if _, ok := vFS[root]; !ok {
		return fn(root, nil, vErrNotExist)
	}
	err := vWalk(root, fn)
	if err == fs.SkipDir || err == fs.SkipAll {
		return nil
	}
	return err
}

// ---------------------------------------------------------------- hashing: injective by construction

type vHashT struct{ buf []byte }

func (h *vHashT) Write(p []byte) (int, error) { h.buf = append(h.buf, p...); return len(p), nil }
func (h *vHashT) Sum(b []byte) []byte         { return append(b, h.buf...) }
func (h *vHashT) Reset()                      { h.buf = nil }
func (h *vHashT) Size() int                   { return 32 }
func (h *vHashT) BlockSize() int              { return 64 }

func vSHANew() hash.Hash { return &vHashT{} }

// hex of the model digest: framed, so concatenations of digests stay uniquely decodable
func vHexEncode(b []byte) string { return "<" + string(b) + ">" }

func vSHA256(r io.Reader) (string, error) {
	f, ok := r.(*os.File)
	if !ok {
		return "", vErrT("model: SHA256 of a non-file")
	}
	n, ok := vFS[vHandles[f]]
	if !ok {
		return "", vErrNotExist
	}
	return "<" + n.content + ">", nil
}

// ---------------------------------------------------------------- record files (JSON)

var vJSONW io.Writer
var vJSONR io.Reader

func vJSONNewEncoder(w io.Writer) *json.Encoder { vJSONW = w; return &json.Encoder{} }

func vCopyInfo(in targetInfo) *targetInfo {
	out := in
	if in.Dependencies != nil {
		out.Dependencies = map[string]string{}
		for k, v := range in.Dependencies {
			out.Dependencies[k] = v
		}
	}
	return &out
}

func vJSONEncode(e *json.Encoder, v any) error {
	vTick("write")
	f, ok := vJSONW.(*os.File)
	if !ok {
		return vErrT("model: JSON written to a non-file")
	}
	n, ok := vFS[vHandles[f]]
	if !ok {
		return vErrNotExist
	}
	switch v := v.(type) {
	case targetInfo:
		n.rec = vCopyInfo(v)
	case index:
		c := index{Flags: append([]*Flag{}, v.Flags...), Targets: append([]TargetSummary{}, v.Targets...)}
		n.idx = &c
	default:
		return vErrT("model: JSON encoding of an unmodelled type")
	}
	return nil
}

func vJSONNewDecoder(r io.Reader) *json.Decoder { vJSONR = r; return &json.Decoder{} }

func vJSONDecode(d *json.Decoder, v any) error {
	n := vFS[vHandles[vJSONR.(*os.File)]]
	switch v := v.(type) {
	case *targetInfo:
		if n == nil || n.rec == nil {
			return vErrT("unexpected end of JSON input")
		}
		*v = *vCopyInfo(*n.rec)
	case *index:
		if n == nil || n.idx == nil {
			return vErrT("unexpected end of JSON input")
		}
		*v = index{Flags: append([]*Flag{}, n.idx.Flags...), Targets: append([]TargetSummary{}, n.idx.Targets...)}
	default:
		return vErrT("model: JSON decoding of an unmodelled type")
	}
	return nil
}

// ---------------------------------------------------------------- functions, bodies, fingerprints

var (
	vEnvTok = map[string]string{} // function name -> environment token (symbolic bytes)
	vFail   = map[string]bool{}   // bodies that fail in the current build
	vBodies = map[string]*vTargetSpec{}
)

type vBody struct{ name string }

func (b *vBody) String() string        { return b.name }
func (b *vBody) Type() string          { return "body" }
func (b *vBody) Freeze()               {}
func (b *vBody) Truth() starlark.Bool  { return true }
func (b *vBody) Hash() (uint32, error) { return 0, nil }
func (b *vBody) Name() string          { return b.name }
func (b *vBody) CallInternal(*starlark.Thread, starlark.Tuple, []starlark.Tuple) (starlark.Value, error) {
	return starlark.None, nil
}

func vEnvValue(tok string) starlark.Value {
	d := starlark.NewDict(1)
	d.SetKey(starlark.String("code"), starlark.String(tok))
	return d
}

func vFunctionEnv(f starlark.Callable) (starlark.Value, error) {
	return vEnvValue(vEnvTok[f.Name()]), nil
}

// vNewThread: the thread a body runs on; the kernel remembers whose body it is so that the body can
// write to the target's output (a real lineWriter, as util.SetStdio would wire it up)
var vCurF *function

func vNewThread(f *function) *starlark.Thread { vCurF = f; return nil }

type vWriter struct{ w io.Writer }

func (w vWriter) Write(b []byte) (int, error) { return w.w.Write(b) }
func (w vWriter) Close() error                { return nil }

func vB64Enc(enc *base64.Encoding, w io.Writer) io.WriteCloser { return vWriter{w} }
func vB64Dec(enc *base64.Encoding, r io.Reader) io.Reader      { return r }

var vLastW io.Writer
var vLastR io.Reader

func vNewEncoder(w io.Writer, p pickle.Pickler) *pickle.Encoder { vLastW = w; return &pickle.Encoder{} }
func vNewDecoder(r io.Reader, u pickle.Unpickler) *pickle.Decoder {
	vLastR = r
	return &pickle.Decoder{}
}

func vPickleEncode(e *pickle.Encoder, x starlark.Value) error {
	_, err := vLastW.Write([]byte("E" + vEnvTok[x.(*vBody).name]))
	return err
}

func vPickleDecode(d *pickle.Decoder) (starlark.Value, error) {
	data, err := io.ReadAll(vLastR)
	if err != nil {
		return nil, err
	}
	if len(data) == 0 || data[0] != 'E' {
		return nil, vErrT("corrupt stamp")
	}
	return vEnvValue(string(data[1:])), nil
}

// vCall: the body of a function target. It may fail; otherwise it (re)writes each declared output
// with content that is a function of its current inputs, and the ghost clock records the execution.
func vCall(thread *starlark.Thread, fn starlark.Value, args starlark.Tuple, kwargs []starlark.Tuple) (starlark.Value, error) {
	b := fn.(*vBody)
	vTick("body-start-" + b.name)
	vRan = append(vRan, b.name)
	vEvent(vLabelOf(vBodies[b.name]), "body")
	if vDry {
		vAssert(false, "C13: a target body was called during a dry run")
	}
	// every body writes one line of output without a terminating newline (C18: delivered exactly
	// once, before the completion event, also when the body then fails)
	if vCurF != nil && vCurF.out != nil {
		vCurF.out.Write([]byte("out:" + b.name))
	}
	if vFail[b.name] {
		vLastOK[b.name] = false
		return nil, vErrT("body failed: " + b.name)
	}
	spec := vBodies[b.name]
	in := "[" + vEnvTok[b.name]
	for _, s := range spec.sources {
		in += "|" + vTreeContent(vRoot+"/"+s)
	}
	for _, d := range vDepsOf(spec) {
		if ds := vBodies[vNameOf(d)]; ds != nil {
			for _, g := range ds.gens {
				in += "|" + vTreeContent(vRoot+"/"+g)
			}
		}
	}
	in += "]"
	for _, g := range spec.gens {
		vTick("body-write-" + b.name)
		vWriteFile(vRoot+"/"+g, b.name+in)
	}
	// the execution counts as a successful execution of the target once dawn has recorded it (the
	// record's rename): a process that dies in between never reported it
	vClock++
	vPending[b.name] = vPendingExec{vClock, vInputsOf(b.name)}
	vTick("body-end-" + b.name)
	return starlark.None, nil
}

// vTreeContent: the content of a file, or of a whole directory tree (names and contents).
func vTreeContent(p string) string {
	n, ok := vFS[p]
	if !ok {
		return "(absent)"
	}
	if !n.dir {
		return "f:" + n.content
	}
	s := "d{"
	for _, c := range vChildren(p) {
		s += vBase(c) + "=" + vTreeContent(c) + ";"
	}
	return s + "}"
}

func vNameOf(lbl string) string { return lbl[strings.LastIndexByte(lbl, ':')+1:] }

// ---------------------------------------------------------------- sequential stand-in for the runner

type vEngine struct {
	targets runner.Targets
	done    map[string]runner.Result
	stack   []string
}

func (e *vEngine) EvaluateTargets(labels ...string) []runner.Result {
	res := make([]runner.Result, len(labels))
	for i, l := range labels {
		if r, ok := e.done[l]; ok {
			res[i] = r
			continue
		}
		cyc := false
		for _, s := range e.stack {
			cyc = cyc || s == l
		}
		if cyc {
			res[i] = runner.Result{Error: runner.CyclicDependencyError("cyclic dependency on " + l)}
			continue
		}
		t, err := e.targets.LoadTarget(l)
		if err == nil {
			e.stack = append(e.stack, l)
			vEvaluated = append(vEvaluated, l)
			err = t.Evaluate(e)
			if err == nil {
				// the evaluation ran to its end and succeeded (the process did not die half-way
				// and no dependency's failure cut it short)
				vCompleted = append(vCompleted, l)
			}
			e.stack = e.stack[:len(e.stack)-1]
		}
		r := runner.Result{Target: t, Error: err}
		e.done[l] = r
		res[i] = r
	}
	return res
}

func vSeqRun(targets runner.Targets, l string) error {
	e := &vEngine{targets: targets, done: map[string]runner.Result{}}
	vInRun = true
	err := e.EvaluateTargets(l)[0].Error
	vInRun = false
	return err
}

// ---------------------------------------------------------------- events

type vEv struct{ label, kind string }

var vEvents []vEv

// (natively the parallel runner delivers events from several goroutines)
var vEvMu sync.Mutex

func vEvent(lbl, kind string) {
	vEvMu.Lock()
	vEvents = append(vEvents, vEv{lbl, kind})
	vEvMu.Unlock()
}

type vRecorder struct{ discardEventsT }

func (vRecorder) TargetUpToDate(l *label.Label) { vEvent(l.String(), "up-to-date") }
func (vRecorder) TargetEvaluating(l *label.Label, reason string, d diff.ValueDiff) {
	vEvent(l.String(), "evaluating")
}
func (vRecorder) TargetFailed(l *label.Label, err error)       { vEvent(l.String(), "failed") }
func (vRecorder) TargetSucceeded(l *label.Label, changed bool) { vEvent(l.String(), "succeeded") }
func (vRecorder) RunDone(err error) {
	if err != nil {
		vEvent("", "run-done:error")
	} else {
		vEvent("", "run-done:ok")
	}
}
func (vRecorder) Print(l *label.Label, line string) { vEvent(l.String(), "print") }

// ---------------------------------------------------------------- ghost state and crash points

var (
	vClock     int
	vChangedAt = map[string]int{}    // input (path / "env:"+name / "out:"+path) -> time of last change
	vExec      = map[string]int{}    // function name -> time of last successful execution
	vSaw       = map[string]string{} // function name -> the values of its own inputs at that execution
	vLastOK    = map[string]bool{}   // function name -> its last attempt succeeded
	vRan       []string              // bodies called in the current build
	vEvaluated []string              // labels evaluated in the current build
	vCompleted []string              // labels whose evaluation ran to completion in the current build
	vDry       bool
	vOps       int
	vCrashAt   = -1
)

type vPendingExec struct {
	at  int
	saw string
}

var vPending = map[string]vPendingExec{}

// vTick marks a point between two persistent effects; the process dies here when the crash index says so.
func vTick(what string) {
	if vOps == vCrashAt {
		vReach("crashed")
		vNote("crash at " + what)
		vCrash()
	}
	vOps++
}

func vTouch(input string) {
	vClock++
	vChangedAt[input] = vClock
}

// ---------------------------------------------------------------- project shapes and loading

type vTargetSpec struct {
	pkg     string   // "//", "//a"
	name    string   // unique across the shape
	deps    []string // labels of function targets
	sources []string // paths relative to the root
	gens    []string // paths relative to the root
	always  bool
}

var vShapes = [][]vTargetSpec{
	// S0: s.txt -> gen -> top, no declared outputs
	{{pkg: "//", name: "gen", sources: []string{"s.txt"}}, {pkg: "//", name: "top", deps: []string{"//:gen"}}},
	// S1: s.txt -> gen (generates out.txt); out.txt (as a source) -> top
	{{pkg: "//", name: "gen", sources: []string{"s.txt"}, gens: []string{"out.txt"}}, {pkg: "//", name: "top", sources: []string{"out.txt"}}},
	// S2: diamond: top -> {left, right} -> s.txt
	{{pkg: "//", name: "left", sources: []string{"s.txt"}}, {pkg: "//", name: "right", sources: []string{"s.txt", "t.txt"}}, {pkg: "//", name: "top", deps: []string{"//:left", "//:right"}}},
	// S3: a source directory d/ under gen -> top
	{{pkg: "//", name: "gen", sources: []string{"d"}}, {pkg: "//", name: "top", deps: []string{"//:gen"}}},
	// S4: two packages, cross-package dependency, a declared output consumed across packages
	{{pkg: "//a", name: "gen", sources: []string{"a/s.txt"}, gens: []string{"a/out.txt"}}, {pkg: "//b", name: "top", deps: []string{"//a:gen"}, sources: []string{"a/out.txt"}}},
	// S5: an always target with a dependent
	{{pkg: "//", name: "stamp", always: true}, {pkg: "//", name: "mid", deps: []string{"//:stamp"}, sources: []string{"s.txt"}}, {pkg: "//", name: "top", deps: []string{"//:mid"}}},
	// S6: a source below a directory that the project's ignore list may cover (vIgnoring)
	{{pkg: "//", name: "gen", sources: []string{"third_party/z/v.txt"}}, {pkg: "//", name: "top", deps: []string{"//:gen"}, sources: []string{"s.txt"}}},
}

var vShape []vTargetSpec

func vSpec(name string) *vTargetSpec { return vBodies[name] }

func vLabelOf(s *vTargetSpec) string { return s.pkg + ":" + s.name }

// vLoadProject: a fresh process loading the project (new Project; function.load re-reads the records).
func vLoadProject() (*Project, error) {
	if vNative() {
		return vLoadNative(false)
	}
	vMkdirs(vTemp)
	proj := vNewProject()
	for i := range vShape {
		s := &vShape[i]
		vBodies[s.name] = s
		if vGone(s.name) {
			continue // the target was removed from its BUILD file
		}
		m := &module{label: &label.Label{Kind: "module", Package: s.pkg, Name: "BUILD.dawn"}}
		deps := append([]string{}, vDepsOf(s)...)
		if vBroken[s.name] {
			deps = append(deps, "//:nosuch")
		}
		var sourcePaths, gens []string
		for _, src := range s.sources {
			l, err := sourceLabel("//", src)
			if err != nil {
				return nil, err
			}
			sf, err := proj.loadSourceFile(l)
			if err != nil {
				return nil, err
			}
			sourcePaths, deps = append(sourcePaths, sf.path), append(deps, l.String())
		}
		for _, g := range s.gens {
			gens = append(gens, vRoot+"/"+g)
		}
		if _, err := proj.loadFunction(m, &label.Label{Package: s.pkg, Name: s.name}, deps, sourcePaths, gens, &vBody{s.name}, s.always, ""); err != nil {
			return nil, err
		}
	}
	if err := proj.link(); err != nil {
		return nil, err
	}
	if vIndexMode {
		proj.saveIndex() // as Project.load does after a full load (its error is ignored there too)
	}
	return proj, nil
}

// vIndexMode: full loads write index.json and `dawn gc` loads the project from it (PreferIndex), as
// the command line does; vIgnoring: the project's configuration has an ignore list
var vIndexMode, vIgnoring bool

func vNewProject() *Project {
	proj := &Project{
		root:    vRoot,
		work:    vWork,
		temp:    vTemp,
		events:  vRecorder{},
		flags:   map[string]*Flag{},
		modules: map[string]*module{},
		targets: map[string]*runTarget{},
	}
	if vIgnoring {
		proj.ignore = &regexp.Regexp{}
	}
	return proj
}

// vLoadForGC: what `dawn gc` loads — the index if it is there and decodes, a full load otherwise.
func vLoadForGC() (*Project, error) {
	if vNative() {
		return vLoadNative(vIndexMode)
	}
	if vIndexMode {
		proj := vNewProject()
		if err := proj.loadIndex(); err == nil {
			vReach("loaded-from-index")
			return proj, nil
		}
	}
	return vLoadProject()
}

// vBuild: load + run, as the CLI does. Returns (load error, build error, crashed).
func vBuild(target string, opts *RunOptions) (loadErr, buildErr error, crashed bool) {
	vRan, vEvaluated, vCompleted, vEvents = nil, nil, nil, nil
	vPending = map[string]vPendingExec{}
	vDry = opts != nil && opts.DryRun
	if vNative() {
		vPreBuildNative()
		defer vPostBuildNative()
	}
	crashed = vCatchCrash(func() {
		// a fresh process per build (the CLI, watch mode) unless the history keeps one loaded
		// project for several runs (the REPL's run())
		proj := vKept
		if proj == nil || !vKeepProject {
			var err error
			proj, err = vLoadProject()
			if err != nil {
				loadErr = err
				return
			}
			vKept = proj
		}
		l, _ := label.Parse(target)
		buildErr = proj.Run(l, opts)
	})
	vDry = false
	return
}

var vBroken = map[string]bool{}
var vDropped = map[string]bool{}

// vGone: a target that has been removed from the project together with the edge to it.
func vGone(name string) bool {
	for top, d := range vDropped {
		if sp := vBodies[top]; d && sp != nil && len(sp.deps) >= 2 && vNameOf(sp.deps[len(sp.deps)-1]) == name {
			return true
		}
	}
	return false
}

// vDepsOf: the function-target dependencies a target currently declares.
func vDepsOf(s *vTargetSpec) []string {
	if vDropped[s.name] && len(s.deps) >= 2 {
		return s.deps[:len(s.deps)-1]
	}
	return s.deps
}

var vKept *Project
var vKeepProject bool

func vRanBody(name string) bool {
	for _, r := range vRan {
		if r == name {
			return true
		}
	}
	return false
}

// vInputsOf: the current values of a function target's OWN inputs: environment token, source trees
// (names and contents), presence of declared outputs.
func vInputsOf(name string) string {
	s := vSpec(name)
	v := "env=" + vEnvTok[name]
	for _, src := range s.sources {
		v += ";" + src + "=" + vTreeContent(vRoot+"/"+src)
	}
	for _, g := range s.gens {
		if _, ok := vFS[vRoot+"/"+g]; !ok {
			v += ";missing:" + g
		}
	}
	return v
}

// vClosure: the function targets in the dependency closure of a target (through deps and through
// generated sources).
func vClosure(name string, seen map[string]bool) {
	if seen[name] {
		return
	}
	seen[name] = true
	s := vSpec(name)
	for _, d := range vDepsOf(s) {
		vClosure(vNameOf(d), seen)
	}
	for _, src := range s.sources {
		for i := range vShape {
			for _, g := range vShape[i].gens {
				if g == src {
					vClosure(vShape[i].name, seen)
				}
			}
		}
	}
}

// vDependenciesOf: function targets a target depends on, directly or through a generated source.
func vDependenciesOf(name string) []string {
	var out []string
	s := vSpec(name)
	for _, d := range vDepsOf(s) {
		out = append(out, vNameOf(d))
	}
	for _, src := range s.sources {
		for i := range vShape {
			for _, g := range vShape[i].gens {
				if g == src {
					out = append(out, vShape[i].name)
				}
			}
		}
	}
	return out
}
