//go:build !purego

package dawn

// The native half of the kernel conformance scenarios (conform.go). The engine loads the harness with
// the purego tag and sees the empty stand-in of conform_stub.go instead, so that dawn's library
// packages (whose initialisers read the process environment) are not pulled into the symbolic build.

import (
	"os"
	"path/filepath"
	"strings"

	"github.com/pgavlin/dawn/label"
	starlark_os "github.com/pgavlin/dawn/lib/os"
	starlark_sh "github.com/pgavlin/dawn/lib/sh"
	"go.starlark.net/starlark"
)

// ---------------------------------------------------------------- native side (a real project)

type vNat struct {
	root    string
	shape   []vTargetSpec
	env     map[string]string
	ignores bool
}

func (n *vNat) write(rel, content string) {
	p := filepath.Join(n.root, filepath.FromSlash(rel))
	os.MkdirAll(filepath.Dir(p), 0o755)
	os.WriteFile(p, []byte(content), 0o644)
}

// writeBuildFiles: one BUILD.dawn per package. A function's body references its own global (its
// environment token), fails when a flag file exists, logs that it ran, and writes each declared
// output as a function of its inputs.
func (n *vNat) writeBuildFiles() {
	pkgs := map[string]string{}
	for _, s := range n.shape {
		var b strings.Builder
		b.WriteString("ENV_" + s.name + " = \"" + n.env[s.name] + "\"\n\n@target(")
		var args []string
		quote := func(xs []string, rooted bool) string {
			var q []string
			for _, x := range xs {
				if rooted {
					x = "/" + x
				}
				q = append(q, "\""+x+"\"")
			}
			return "[" + strings.Join(q, ", ") + "]"
		}
		if len(s.deps) > 0 {
			args = append(args, "deps="+quote(s.deps, false))
		}
		if len(s.sources) > 0 {
			args = append(args, "sources="+quote(s.sources, true))
		}
		if len(s.gens) > 0 {
			args = append(args, "generates="+quote(s.gens, true))
		}
		if s.always {
			args = append(args, "always=True")
		}
		b.WriteString(strings.Join(args, ", ") + ")\ndef " + s.name + "():\n")
		b.WriteString("    print(ENV_" + s.name + ")\n")
		b.WriteString("    sh.exec(\"touch " + n.root + "/RAN_" + s.name + "\")\n")
		b.WriteString("    if os.exists(\"" + n.root + "/FAIL_" + s.name + "\"):\n        fail(\"body failed\")\n")
		for _, g := range s.gens {
			var ins []string
			for _, src := range s.sources {
				ins = append(ins, n.root+"/"+src)
			}
			b.WriteString("    sh.exec(\"(echo " + s.name + " \" + ENV_" + s.name + " + \"; cat " + strings.Join(ins, " ") + ") > " + n.root + "/" + g + "\")\n")
		}
		b.WriteString("\n")
		pkgs[s.pkg] += b.String()
	}
	for pkg, text := range pkgs {
		n.write(strings.TrimPrefix(pkg[2:]+"/BUILD.dawn", "/"), text)
	}
}

func (n *vNat) load(preferIndex bool) (*Project, error) {
	return Load(n.root, &LoadOptions{
		Events:      DiscardEvents,
		PreferIndex: preferIndex,
		Builtins:    starlark.StringDict{"os": starlark_os.Module, "sh": starlark_sh.Module},
	})
}

func vScenarioNative(sc vScenario) {
	root, err := os.MkdirTemp("", "verif-kernel-")
	if err != nil {
		return
	}
	defer os.RemoveAll(root)
	root, _ = filepath.EvalSymlinks(root)
	n := &vNat{root: root, shape: vShapes[sc.shape], env: map[string]string{}}
	config := ""
	if sc.shape == 6 {
		config = "ignore = [\"third_party/**\"]\n"
	}
	n.write("dawn.toml", config)
	generated := map[string]bool{}
	for _, s := range n.shape {
		n.env[s.name] = "a"
		for _, g := range s.gens {
			generated[g] = true
		}
	}
	for _, s := range n.shape {
		for _, src := range s.sources {
			switch {
			case generated[src]:
			case src == "d":
				n.write("d/x.txt", "a")
				n.write("d/y.txt", "a")
			default:
				n.write(src, "a")
			}
		}
	}
	n.writeBuildFiles()
	pkgOf := map[string]string{}
	for _, s := range n.shape {
		pkgOf[s.name] = s.pkg
	}
	for _, step := range strings.Split(sc.steps, " ") {
		switch {
		case step[0] == 'B':
			fail, target, opts := vParseBuild(step)
			for _, s := range n.shape {
				os.Remove(filepath.Join(root, "RAN_"+s.name))
				os.Remove(filepath.Join(root, "FAIL_"+s.name))
			}
			if fail != "" {
				n.write("FAIL_"+fail, "")
			}
			ok := false
			if proj, err := n.load(false); err == nil {
				l, _ := label.Parse(pkgOf[target] + ":" + target)
				ok = proj.Run(l, opts) == nil
			}
			var ran []string
			for _, s := range n.shape {
				if _, err := os.Stat(filepath.Join(root, "RAN_"+s.name)); err == nil {
					ran = append(ran, s.name)
				}
			}
			vNote(step + " -> ran=" + vSortedJoin(ran) + " ok=" + vBoolStr(ok))
		case step[0] == 'C' || strings.HasPrefix(step, "Dc"):
			kv := step[strings.IndexByte(step, ':')+1:]
			eq := strings.IndexByte(kv, '=')
			n.write(kv[:eq], kv[eq+1:])
		case step[0] == 'X':
			os.Remove(filepath.Join(root, filepath.FromSlash(step[2:])))
		case step[0] == 'E':
			kv := step[2:]
			eq := strings.IndexByte(kv, '=')
			n.env[kv[:eq]] = kv[eq+1:]
			n.writeBuildFiles()
		case step == "O":
			for _, s := range n.shape {
				for _, g := range s.gens {
					os.Remove(filepath.Join(root, filepath.FromSlash(g)))
				}
			}
		case step == "Dr":
			os.Rename(filepath.Join(root, "d", "x.txt"), filepath.Join(root, "d", "z.txt"))
		case step == "Da":
			n.write("d/w.txt", "a")
		case step == "Dd":
			os.Remove(filepath.Join(root, "d", "y.txt"))
		case step == "G":
			if proj, err := n.load(true); err == nil {
				proj.GC()
			}
		case step == "L":
			var recs []string
			work := filepath.Join(root, ".dawn", "build")
			filepath.WalkDir(work, func(p string, d os.DirEntry, err error) error {
				if err != nil || d.IsDir() {
					return nil
				}
				rel := filepath.ToSlash(p[len(work)+1:])
				if !strings.HasPrefix(rel, "temp/") {
					recs = append(recs, rel)
				}
				return nil
			})
			vNote("records: " + vSortedJoin(recs))
		}
	}
}
