package dawn

import (
	"io/fs"
	"sort"
	"strings"

	"github.com/pgavlin/dawn/label"
)

var vStubTableFor = map[string]map[string]string{"VHarnessC14": {
	"path/filepath.WalkDir": "vWalkDir",
	"os.RemoveAll":          "vRemoveAll",
	"os.IsNotExist":         "vIsNotExist14",
}}

// FS model: path -> isDir. Paths are absolute, '/'-separated.
var vTree = map[string]bool{}
var vRemoved []string

type vDirEntry struct {
	name string
	dir  bool
}

func (e vDirEntry) Name() string               { return e.name }
func (e vDirEntry) IsDir() bool                { return e.dir }
func (e vDirEntry) Type() fs.FileMode          { return 0 }
func (e vDirEntry) Info() (fs.FileInfo, error) { return nil, nil }

type vErr14 string

func (e vErr14) Error() string { return string(e) }

var vNotExist = vErr14("no such file or directory")

func vIsNotExist14(err error) bool { return err == vNotExist }

func vChildren(dir string) []string {
	var out []string
	for p := range vTree {
		if strings.HasPrefix(p, dir+"/") && !strings.Contains(p[len(dir)+1:], "/") {
			out = append(out, p)
		}
	}
	sort.Strings(out)
	return out
}

func vBase(p string) string { return p[strings.LastIndexByte(p, '/')+1:] }

// filepath.WalkDir: lexical order; the callback sees a directory before its children; SkipDir skips
// them; a directory that vanished (removed by the callback) is reported with an error, as the real one does.
func vWalk(path string, fn fs.WalkDirFunc) error {
	isDir := vTree[path]
	err := fn(path, vDirEntry{vBase(path), isDir}, nil)
	if err != nil || !isDir {
		if err == fs.SkipDir && isDir {
			err = nil
		}
		return err
	}
	if _, still := vTree[path]; !still {
		err = fn(path, vDirEntry{vBase(path), true}, vNotExist)
		if err == fs.SkipDir {
			return nil
		}
		return err
	}
	for _, c := range vChildren(path) {
		if err := vWalk(c, fn); err != nil {
			if err == fs.SkipDir {
				break
			}
			return err
		}
	}
	return nil
}

func vWalkDir(root string, fn fs.WalkDirFunc) error {
	if _, ok := vTree[root]; !ok {
		return fn(root, nil, vNotExist)
	}
	err := vWalk(root, fn)
	if err == fs.SkipDir || err == fs.SkipAll {
		return nil
	}
	return err
}

func vRemoveAll(path string) error {
	vRemoved = append(vRemoved, path)
	for p := range vTree {
		if p == path || strings.HasPrefix(p, path+"/") {
			delete(vTree, p)
		}
	}
	return nil
}

func vAdd(path string, dir bool) {
	// add with parents
	for i := 1; i < len(path); i++ {
		if path[i] == '/' {
			vTree[path[:i]] = true
		}
	}
	vTree[path] = dir
}

// VHarnessC14: GC keeps the record of every live label, removes every other entry below the build
// directory except index.json and temp/, and touches nothing outside it.
func VHarnessC14() {
	proj := &Project{root: "/p", work: "/p/.dawn/build", temp: "/p/.dawn/build/temp", targets: map[string]*runTarget{}}
	vAdd("/p/.dawn/build", true)
	vAdd("/p/src.txt", false)
	live := []*label.Label{
		{Package: "//", Name: "gen"},
		{Package: "//sub/pkg", Name: "top"},
		{Kind: "source", Package: "//sub", Name: "s.txt"},
		{Kind: "source", Package: "//", Name: "out.txt"}, // a generated file used as a source
	}
	var livePaths []string
	for i, l := range live {
		// the state of each label comes from the case parameters (the exploration is split over
		// workers): 0 absent, 1 live without record, 2 live with record, 3 not live, stale record
		st := vParam("l" + string(rune('0'+i)))
		if st == 1 || st == 2 {
			var t Target
			switch i {
			case 0, 1:
				t = &function{proj: proj, label: l}
			case 3:
				t = &sourceFile{proj: proj, label: l, generator: live[0]}
			default:
				t = &sourceFile{proj: proj, label: l}
			}
			proj.targets[l.String()] = &runTarget{target: t}
			p := proj.targetInfoPath(l)
			livePaths = append(livePaths, p)
			if st == 2 {
				vAdd(p, false)
			}
		} else if st == 3 {
			vAdd(proj.targetInfoPath(l), false)
		}
	}
	// other things that may lie around
	extras := []struct {
		path string
		dir  bool
	}{
		{"/p/.dawn/build/index.json", false},
		{"/p/.dawn/build/temp", true},
		{"/p/.dawn/build/temp/123456", false},
		{"/p/.dawn/build/temp/223456", false},
		{"/p/.dawn/build/targets/gone%2Ftarget", false},
		{"/p/.dawn/build/targets/zgone2", false},
		{"/p/.dawn/build/sources/%2Fremoved.txt", false},
		{"/p/.dawn/build/stray", true},
		{"/p/.dawn/build/stray/file", false},
	}
	for _, e := range extras {
		if vNondetBool("extra") {
			vAdd(e.path, e.dir)
		}
	}
	before := map[string]bool{}
	for p, d := range vTree {
		before[p] = d
	}
	vAssert(proj.GC() == nil, "gc-ok")

	isLive := func(p string) bool {
		for _, lp := range livePaths {
			if lp == p {
				return true
			}
		}
		return false
	}
	for p := range before {
		_, still := vTree[p]
		switch {
		case !strings.HasPrefix(p, "/p/.dawn/build"):
			vAssert(still, "outside-build-dir-untouched")
		case isLive(p):
			vAssert(still, "live-record-kept")
		case p == "/p/.dawn/build" || p == "/p/.dawn/build/index.json" || p == "/p/.dawn/build/temp":
			vAssert(still, "index-and-temp-dir-kept")
		case before[p] && vHasLiveBelow(p, livePaths, before):
			vAssert(still, "parent-of-live-record-kept")
		default:
			vAssert(!still, "dead-entry-removed")
		}
	}
	for _, r := range vRemoved {
		vAssert(strings.HasPrefix(r, "/p/.dawn/build/"), "removes-only-below-build-dir")
	}
	vReach("done")
}

func vHasLiveBelow(dir string, livePaths []string, before map[string]bool) bool {
	for _, lp := range livePaths {
		if strings.HasPrefix(lp, dir+"/") {
			return true
		}
	}
	return false
}
