package mvs

import (
	"context"
	"fmt"

	"github.com/pgavlin/dawn/internal/project"
	"golang.org/x/mod/semver"
)

// C11: requirement edits keep the requirement graph consistent. dawn's Get / Tidy / UpgradeAll,
// transformReqs, the querier and Reqs.{Upgrade,Previous} run from their SSA together with the real
// MVS library (Upgrade, Downgrade, Req, ReqList) over the universes of universe.go.

func vRootConfig(nproj, nver int) (*project.Config, []int) {
	root := make([]int, nproj)
	cfg := &project.Config{Name: "root", Requirements: map[string]project.RequirementConfig{}}
	for i := 0; i < nproj; i++ {
		if p := vParam("root" + string(rune('0'+i))); p >= 0 {
			root[i] = p
		} else {
			root[i] = vChoose("root-requires", nver+1)
		}
		if root[i] > 0 {
			name := fmt.Sprintf("r%d", i)
			if n := vNames[vPath(i)]; n != "" {
				name = n // requirements are usually named after the project: new projects may collide
			}
			cfg.Requirements[name] = project.RequirementConfig{Path: vPath(i), Version: vVersion(i, root[i]-1)}
		}
	}
	return cfg, root
}

func vListOf(cfg *project.Config, r *Resolver) map[string]string {
	l, err := BuildList(context.Background(), cfg, r)
	vAssert(err == nil, "build-list-of-requirements-resolves")
	delete(l, "")
	return l
}

func vNamesKept(old, new map[string]project.RequirementConfig, tag string) {
	// existing requirement names are preserved: a name whose project survives keeps naming it
	for name, o := range old {
		survives := false
		for _, n := range new {
			survives = survives || n.Path == o.Path
		}
		if survives {
			n, ok := new[name]
			vAssert(ok && n.Path == o.Path, tag+": an existing requirement name was not preserved")
		}
	}
	// every project of the result is named exactly once (map keys are unique by construction; a lost
	// project shows as a build list that lacks it, checked by the callers), except aliases kept
	seen := map[string]int{}
	for _, n := range new {
		seen[n.Path]++
	}
	for name, n := range new {
		if _, was := old[name]; !was {
			vAssert(seen[n.Path] == 1, tag+": a new requirement duplicates a project already named")
		}
	}
}

// VHarnessC11Tidy: Tidy returns requirements whose build list equals the original one; names kept;
// tidying again changes nothing.
func VHarnessC11Tidy() {
	nproj, nver := vParam("nproj"), vParam("nver")
	vShape = vParam("shape")
	vMajor2 = vParam("major2") == 1
	vSetNames()
	r := vSetup(nproj, nver)
	cfg, _ := vRootConfig(nproj, nver)
	ctx := context.Background()
	before := vListOf(cfg, r)
	tidy, err := Tidy(ctx, cfg, r)
	vAssert(err == nil, "tidy: fails")
	if err != nil {
		return
	}
	after := vListOf(&project.Config{Requirements: tidy}, r)
	vAssert(vSameMap(before, after), "tidy: build list changed")
	vNamesKept(cfg.Requirements, tidy, "tidy")
	again, err := Tidy(ctx, &project.Config{Requirements: tidy}, r)
	vAssert(err == nil && vSameReqs(tidy, again), "tidy: repeating the operation changes the requirements")
	vReach("tidied")
}

func vSameMap(a, b map[string]string) bool {
	if len(a) != len(b) {
		return false
	}
	for k, v := range a {
		if w, ok := b[k]; !ok || v != w {
			return false
		}
	}
	return true
}

func vSameReqs(a, b map[string]project.RequirementConfig) bool {
	if len(a) != len(b) {
		return false
	}
	for k, v := range a {
		if w, ok := b[k]; !ok || v != w {
			return false
		}
	}
	return true
}

var vDeclared = []string{"", "util", "util"} // declared project names: two projects share one

func vSetNames() {
	if vParam("names") == 1 {
		for i := 0; i < 3; i++ {
			vNames[vPath(i)] = vDeclared[i]
		}
	}
}

var vQueries = []string{"@latest", "@upgrade", "@patch", "", "@EXACT", "@>=EXACT", "@<=EXACT", "@<EXACT"}

// VHarnessC11Get: get <project>@<query> for every query kind against every universe: the new
// requirements' build list contains the resolved version of the project, no other project is
// lowered by an upgrade, a downgrade leaves the project at or below the requested version, names
// are kept, new names are unique, and repeating the operation changes nothing.
func VHarnessC11Get() {
	nproj, nver := vParam("nproj"), vParam("nver")
	vShape = vParam("shape")
	vPatchy = vParam("query") == 2
	vPseudoTop = vPatchy && vParam("pseudo") == 1
	vPreOnly = vParam("pre") == 1
	vMajor2 = vParam("major2") == 1
	vSetNames()
	r := vSetup(nproj, nver)
	cfg, root := vRootConfig(nproj, nver)
	if vParam("alias") == 1 {
		// a second requirement name for project 0, possibly pinned to another version
		av := vChoose("alias-version", nver)
		cfg.Requirements["alias0"] = project.RequirementConfig{Path: vPath(0), Version: vVersion(0, av)}
		// known finding D13: two names for one project at DIFFERENT versions
		vRegion("D13-aliased-requirement-versions", root[0] > 0 && av != root[0]-1)
	}
	ctx := context.Background()
	before := vListOf(cfg, r)

	target := vChoose("get-project", nproj)
	path := vPath(target)
	q := vQueries[vParam("query")]
	exact := vChoose("exact-version", nver)
	query := path + q
	for i := 0; i+5 <= len(query); i++ {
		if query[i:i+5] == "EXACT" {
			query = query[:i] + vVersion(target, exact) + query[i+5:]
		}
	}
	newReqs, err := Get(ctx, cfg, r, query)
	if err != nil {
		// only a range that no tagged version satisfies may fail
		vAssert(vParam("query") == 7 && exact == 0, "get: fails for a satisfiable query")
		vReach("get-unsatisfiable")
		return
	}
	after := vListOf(&project.Config{Requirements: newReqs}, r)
	cur, had := before[path]
	got, has := after[path]
	top := vVersion(target, nver-1)
	if vPseudoTop {
		top = vVersion(target, nver-2) // the greatest TAGGED version
	}
	want := ""
	switch vParam("query") {
	case 0, 3: // latest
		want = top
	case 1: // upgrade: the latest, never below the current version
		want = top
	case 2: // patch: the greatest version with the current major.minor, never below the current one
		if had {
			want = cur
			for k := 0; k < nver; k++ {
				v := vVersion(target, k)
				if vPseudoTop && k == nver-1 {
					continue
				}
				if semver.MajorMinor(v) == semver.MajorMinor(cur) && semver.Compare(v, want) > 0 {
					want = v
				}
			}
		} else {
			want = top
		}
	case 4: // exact
		want = vVersion(target, exact)
	case 5: // >= v: the greatest version satisfying it
		want = top
	case 6: // <= v
		want = vVersion(target, exact)
	case 7: // < v
		want = vVersion(target, exact-1)
	}
	upgrade := !had || semver.Compare(want, cur) >= 0
	if upgrade {
		vAssert(has, "get: the project is missing from the new build list")
		if !has {
			return
		}
		// the build list contains the resolved version (or a greater one that another reachable
		// requirement demands), and no other project is lowered
		vAssert(semver.Compare(got, want) >= 0, "get: the build list does not contain the resolved version")
		for p, v := range before {
			w, ok := after[p]
			vAssert(ok && semver.Compare(w, v) >= 0, "get: an upgrade lowered or dropped another project")
		}
		vReach("get-upgraded")
	} else {
		// at or below the requested version; a project whose every eligible version is excluded
		// (the universe makes the requested version require a newer version of itself) is dropped
		vAssert(!has || semver.Compare(got, want) <= 0, "get: a downgrade left the project above the requested version")
		vReach("get-downgraded")
	}
	vNamesKept(cfg.Requirements, newReqs, "get")
	// repeating the operation changes nothing — once the operation has reached its goal (in a
	// universe where the requested version transitively requires a newer version of the same project
	// the goal is unreachable and a repetition keeps trying)
	if !has || got != want {
		vReach("get-goal-unreachable")
		return
	}
	again, err := Get(ctx, &project.Config{Requirements: newReqs}, r, query)
	vAssert(err == nil, "get: repeating the operation fails")
	if err == nil {
		vAssert(vSameMap(after, vListOf(&project.Config{Requirements: again}, r)), "get: repeating the operation changes the build list")
	}
	vReach("got")
}

// VHarnessC11UpgradeAll: every project of the new build list is at the greatest tagged version of its
// major, nothing is lowered, names are kept.
func VHarnessC11UpgradeAll() {
	nproj, nver := vParam("nproj"), vParam("nver")
	vShape = vParam("shape")
	vMajor2 = vParam("major2") == 1
	r := vSetup(nproj, nver)
	cfg, _ := vRootConfig(nproj, nver)
	ctx := context.Background()
	before := vListOf(cfg, r)
	up, err := UpgradeAll(ctx, cfg, r)
	vAssert(err == nil, "upgrade-all: fails")
	if err != nil {
		return
	}
	after := vListOf(&project.Config{Requirements: up}, r)
	for p, v := range before {
		w, ok := after[p]
		vAssert(ok && semver.Compare(w, v) >= 0, "upgrade-all: a project was lowered or dropped")
	}
	for i := 0; i < nproj; i++ {
		if v, ok := after[vPath(i)]; ok {
			vAssert(v == vVersion(i, nver-1), "upgrade-all: a project is not at its greatest version")
		}
	}
	vNamesKept(cfg.Requirements, up, "upgrade-all")
	vReach("upgraded-all")
}

// VHarnessC11Twin: reachability twin.
func VHarnessC11Twin() {
	r := vSetup(2, 2)
	cfg := &project.Config{Requirements: map[string]project.RequirementConfig{"a": {Path: vPath(0), Version: vVersion(0, 0)}}}
	if reqs, err := Get(context.Background(), cfg, r, vPath(0)+"@latest"); err == nil && reqs["a"].Version == vVersion(0, 1) {
		vAssert(false, "twin")
	}
}
