package mvs

import (
	"context"
	"fmt"

	"github.com/pgavlin/dawn/internal/project"
)

// C10: the resolved build list contains exactly the projects reachable through requirements, each
// once, at the highest version demanded by any reachable requirement; independent of declaration
// order, map iteration order and the state of the download cache.

var vOrders = [][]int{{0, 1, 2}, {2, 1, 0}, {1, 2, 0}, {1, 0, 2}}

// VHarnessC10BuildList: every requirement graph over nproj projects x nver versions (each node's
// edges and the root's requirements are environment choices), root requirements declared in one of
// several orders, optionally under two different names for the same project at different versions.
func VHarnessC10BuildList() {
	nproj, nver := vParam("nproj"), vParam("nver")
	vMajor2 = vParam("major2") == 1
	vShape = vParam("shape")
	r := vSetup(nproj, nver)
	root := make([]int, nproj)
	cfg := &project.Config{Name: "root", Requirements: map[string]project.RequirementConfig{}}
	for _, i := range vOrders[vParam("order")] {
		if i >= nproj {
			continue
		}
		if vParam("root"+string(rune('0'+i))) >= 0 {
			root[i] = vParam("root" + string(rune('0'+i))) // the exploration is split over the root's requirements
		} else {
			root[i] = vChoose("root-requires", nver+1)
		}
		if root[i] > 0 {
			cfg.Requirements[fmt.Sprintf("r%d", i)] = project.RequirementConfig{Path: vPath(i), Version: vVersion(i, root[i]-1)}
		}
	}
	if vParam("alias") == 1 {
		// a second requirement name for project 0 at another version
		other := vChoose("alias-version", nver)
		cfg.Requirements["alias0"] = project.RequirementConfig{Path: vPath(0), Version: vVersion(0, other)}
		vAliasLow = other // both versions are root requirements: both are walked below
	}
	if vParam("failonce") == 1 {
		fi, fk := vChoose("fail-project", nproj), vChoose("fail-version", nver)
		vFailOnce[vNode(fi, fk)] = true
	}
	ctx := context.Background()
	got, err := BuildList(ctx, cfg, r)
	if err != nil {
		// only a transient fetch failure may fail the resolution; a retry must then succeed
		vAssert(vParam("failonce") == 1, "resolution-fails-without-a-fault")
		vReach("failed-then-retried")
		got, err = BuildList(ctx, cfg, r)
		vAssert(err == nil, "retry-after-transient-failure-succeeds")
		if err != nil {
			return
		}
	}
	want := vExpected(root)
	if vParam("alias") == 1 {
		lo := vExpectedFrom(0, vAliasLow)
		for i := range want {
			if lo[i] > want[i] {
				want[i] = lo[i]
			}
		}
	}
	vAssert(vSameList(got, want), "build-list-is-the-mvs-solution")
	// warm cache: the same resolver answers the same
	again, err := BuildList(ctx, cfg, r)
	vAssert(err == nil && vSameList(again, want), "warm-cache-gives-the-same-answer")
	// cold cache: a fresh resolver answers the same
	vFetches = map[string]int{}
	vFailOnce = map[string]bool{}
	cold, err := BuildList(ctx, cfg, NewResolver("cache", nil, nil))
	vAssert(err == nil && vSameList(cold, want), "cold-cache-gives-the-same-answer")
	vReach("resolved")
}

var vAliasLow int

// VHarnessC10InnerAlias: the same exploration over universes in which a non-root project may require
// the same path twice, under two names and at two versions (every project may name a requirement as
// it likes): both edges are demands, the higher one wins and what only it reaches is in the list.
func VHarnessC10InnerAlias() {
	vInnerAlias = vParam("inner_alias")
	VHarnessC10BuildList()
}

func vExpectedFrom(i, k int) []int {
	root := make([]int, vNProj)
	root[i] = k + 1
	return vExpected(root)
}

// VHarnessC10Twin: reachability twin.
func VHarnessC10Twin() {
	r := vSetup(2, 2)
	cfg := &project.Config{Requirements: map[string]project.RequirementConfig{"a": {Path: vPath(0), Version: vVersion(0, 0)}}}
	if got, err := BuildList(context.Background(), cfg, r); err == nil && len(got) >= 2 {
		vAssert(false, "twin")
	}
}

// VHarnessC10Order: the version order MVS is given (Reqs.Max / cmpVersion over semver.Compare) is a
// total order with the root's empty version greatest, for versions vA.B.C with symbolic digits.
func VHarnessC10Order() {
	triple := vParam("triple") == 1
	mk := func(tag string) string {
		if vNondetBool(tag + "-empty") {
			return ""
		}
		b := []byte("v1.0.0")
		pos := []int{1, 3, 5}
		if triple {
			pos = []int{3} // three versions: one symbolic digit each keeps the case split small
		}
		for _, i := range pos {
			d := vNondetU8(tag)
			vAssume(d < 10)
			b[i] = '0' + d
		}
		if vNondetBool(tag + "-pre") {
			b = append(b, "-rc"...)
		}
		return string(b)
	}
	var r Reqs
	a, b := mk("a"), mk("b")
	m := r.Max("p", a, b)
	vAssert(m == a || m == b, "max-returns-an-argument")
	vAssert(r.Max("p", a, "") == "" && r.Max("p", "", a) == "", "root-version-is-greatest")
	vAssert(r.Max("p", a, a) == a, "max-idempotent")
	ab, ba := cmpVersion(a, b), cmpVersion(b, a)
	vAssert(ab == -ba, "comparison-antisymmetric")
	vAssert((ab == 0) == (a == b), "comparison-zero-iff-equal")
	vAssert(r.Max("p", a, b) == r.Max("p", b, a) || ab == 0, "max-commutative")
	if triple {
		c := mk("c")
		if cmpVersion(a, b) <= 0 && cmpVersion(b, c) <= 0 {
			vAssert(cmpVersion(a, c) <= 0, "comparison-transitive")
		}
		vAssert(r.Max("p", r.Max("p", a, b), c) == r.Max("p", a, r.Max("p", b, c)), "max-associative")
	}
	vReach("order")
}
