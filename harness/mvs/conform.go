package mvs

import "fmt"

// Translator validation: the version order on concrete versions (semver.Compare is interpreted).

func VConformOrder() {
	vs := []string{"", "v1.0.0", "v1.0.1", "v1.1.0", "v1.10.0", "v1.2.0", "v2.0.0", "v1.0.0-rc", "v1.0.0-rc.1", "v0.0.0", "v1.0.0+meta", "none", "v1"}
	var r Reqs
	for _, a := range vs {
		for _, b := range vs {
			vNote(fmt.Sprintf("cmp(%q,%q)=%d max=%q", a, b, cmpVersion(a, b), r.Max("p", a, b)))
		}
	}
	for _, q := range []string{"a/b@v1", "a/b@latest", "a/b@v2@latest", "a/b", "a/b@v1.2.3", "a/b@>=v1.0.0", "a/b@patch"} {
		vq := parseVersionQuery(q)
		vNote("query " + q + " -> path=" + vq.path + " query=" + vq.query)
	}
	for _, s := range []string{"v1", "v1.2", "v1.2.3", ">v1.0.0", ">=v1.0.0", "<v1.1.0", "<=v1.1.0", "<", ">=x"} {
		acc, err := parseSemverRangeQuery(s)
		if err != nil {
			vNote("range " + s + " -> error")
			continue
		}
		m := ""
		for _, v := range []string{"v1.0.0", "v1.0.1", "v1.1.0", "v1.2.0", "v1.2.3", "v2.0.0"} {
			if acc(v) {
				m += "1"
			} else {
				m += "0"
			}
		}
		vNote("range " + s + " -> " + m)
	}
}
