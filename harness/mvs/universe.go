package mvs

import (
	"context"
	"fmt"

	"github.com/pgavlin/dawn/internal/project"
	"github.com/pgavlin/dawn/internal/vcs"
	"golang.org/x/mod/module"
)

// A finite universe of projects x versions x requirement edges for the C10 / C11 harnesses.
//
// Everything dawn owns is executed from its SSA: BuildList/Get/Tidy/UpgradeAll, transformReqs, Reqs
// (Required, Max, Upgrade, Previous, cmpVersion), the querier, Resolver.resolveProject and
// listVersions with their sync.Map memos — and so is the MVS library (github.com/pgavlin/mvs: graph
// exploration, Upgrade, Downgrade, Req, ReqList), whose par.Work runs with one worker. What is
// replaced is I/O: FetchProject (download), project.LoadConfigFile (reading the fetched dawn.toml)
// and findProjectRepository (dialling a VCS), which answer from the universe below.
//
// The edges are environment choices made lazily, the first time a (project, version) node is
// fetched, and remembered — so a project's requirements are a function of (path, version), which is
// also what "cold or warm cache gives the same answer" means.

var vStubTable = map[string]string{
	"(*github.com/pgavlin/dawn/internal/mvs.Resolver).FetchProject":          "vFetch",
	"github.com/pgavlin/dawn/internal/project.LoadConfigFile":                "vLoadConfig",
	"(*github.com/pgavlin/dawn/internal/mvs.Resolver).findProjectRepository": "vFindRepo",
}

var (
	vNProj, vNVer int
	vEdges        = map[string][]int{} // node key -> per project: 0 none, k = version index k-1
	vEdges2       = map[string][]int{} // the same, for a second requirement of the same path under another name
	vFetches      = map[string]int{}
	vFailOnce     = map[string]bool{}
	vNames        = map[string]string{} // project path -> declared project name ("" = none)
)

func vPath(i int) string {
	if i == 2 && vMajor2 {
		return "h.io/p0@v2" // a second major version of project 0: a different path to MVS
	}
	return fmt.Sprintf("h.io/p%d", i)
}

var vMajor2, vPatchy, vPseudoTop, vPreOnly bool
var vShape int // 0: any edge; 1: ring; 2: fan

var vPatchNames = []string{"v1.0.0", "v1.0.1", "v1.1.0", "v1.1.1"}

var vPreNames = []string{"v1.0.0-rc.1", "v1.0.0-rc.2", "v1.0.0-rc.3"}

func vVersion(i, k int) string {
	if vPreOnly && i == 0 {
		return vPreNames[k] // project 0 has pre-release tags only
	}
	if vPatchy {
		if vPseudoTop && k == vNVer-1 {
			// an untagged revision newer than every tag of its minor series (what get <p>@main leaves)
			return "v1.0.2-0.20200101000000-abcdefabcdef"
		}
		return vPatchNames[k] // versions that differ in the patch number too (for @patch queries)
	}
	if i == 2 && vMajor2 {
		return fmt.Sprintf("v2.%d.0", k)
	}
	return fmt.Sprintf("v1.%d.0", k)
}

func vNode(i, k int) string { return vPath(i) + "@" + vVersion(i, k) }

func vFindNode(pathAtVersion string) (int, int, bool) {
	for i := 0; i < vNProj; i++ {
		for k := 0; k < vNVer; k++ {
			if vNode(i, k) == pathAtVersion {
				return i, k, true
			}
		}
	}
	return 0, 0, false
}

type vErrT string

func (e vErrT) Error() string { return string(e) }

func vFetch(r *Resolver, ctx context.Context, p project.RequirementConfig) (string, error) {
	key := p.Path + "@" + p.Version
	if _, _, ok := vFindNode(key); !ok {
		return "", vErrT("no such version: " + key)
	}
	vFetches[key]++
	if vFailOnce[key] && vFetches[key] == 1 {
		return "", vErrT("transient network failure fetching " + key)
	}
	return "cache/" + key, nil
}

// vReqsOf: the requirement edges of node (i, k), chosen on first use.
func vReqsOf(i, k int) []int {
	key := vNode(i, k)
	if e, ok := vEdges[key]; ok {
		return e
	}
	e, e2 := make([]int, vNProj), make([]int, vNProj)
	for j := 0; j < vNProj; j++ {
		if j == i {
			continue // a project does not require itself
		}
		switch vShape {
		case 1: // ring: project i may require project i+1 (mod n) only — chains and cycles
			if j != (i+1)%vNProj {
				continue
			}
		case 2: // fan: project i may require any later project — diamonds, no cycles
			if j < i {
				continue
			}
		}
		e[j] = vChoose("requires", vNVer+1)
		if vInnerAlias > 0 && e[j] > 0 {
			// the same path once more under another name, at any version (or not at all)
			e2[j] = vChoose("requires-again", vNVer+1)
		}
	}
	vEdges[key] = e
	vEdges2[key] = e2
	return e
}

// vInnerAlias: 0 = a project names each required path once; 1 / 2 = a non-root project may require
// a path twice under two names, the second name sorting after / before the first.
var vInnerAlias int

func vReqs2Of(i, k int) []int {
	vReqsOf(i, k)
	return vEdges2[vNode(i, k)]
}

func vLoadConfig(path string) (*project.Config, error) {
	// path is cache/<project>@<version>/dawn.toml
	const pfx, sfx = "cache/", "/dawn.toml"
	if len(path) < len(pfx)+len(sfx) || path[:len(pfx)] != pfx || path[len(path)-len(sfx):] != sfx {
		return nil, vErrT("unexpected config path " + path)
	}
	i, k, ok := vFindNode(path[len(pfx) : len(path)-len(sfx)])
	if !ok {
		return nil, vErrT("unexpected config path " + path)
	}
	c := &project.Config{Name: vNames[vPath(i)], Requirements: map[string]project.RequirementConfig{}}
	for j, v := range vReqsOf(i, k) {
		if v > 0 {
			c.Requirements[fmt.Sprintf("dep%d", j)] = project.RequirementConfig{Path: vPath(j), Version: vVersion(j, v-1)}
		}
	}
	for j, v := range vReqs2Of(i, k) {
		if v > 0 {
			name := fmt.Sprintf("zdep%d", j)
			if vInnerAlias == 2 {
				name = fmt.Sprintf("adep%d", j)
			}
			c.Requirements[name] = project.RequirementConfig{Path: vPath(j), Version: vVersion(j, v-1)}
		}
	}
	return c, nil
}

// ---- a repository that has every version of the universe tagged ----

type vRepo struct{}

func (vRepo) Path() string                                        { return "h.io" }
func (vRepo) DefaultRef(ctx context.Context) (string, error)      { return "main", nil }
func (vRepo) ResolveRef(ctx context.Context, ref string) (string, error) { return "", vErrT("no such ref " + ref) }
func (vRepo) GetRevision(ctx context.Context, id string) (vcs.Revision, error) {
	return nil, vErrT("no such revision " + id)
}
func (vRepo) FetchRevision(ctx context.Context, projectPath string, revision vcs.Revision, destDir string) error {
	return vErrT("not fetchable")
}

var vTagged []*vcs.Version // sorted ascending per project, as repo.Versions documents

func (vRepo) Versions(ctx context.Context) ([]*vcs.Version, error) { return vTagged, nil }

func vFindRepo(r *Resolver, ctx context.Context, projectPath string) (vcs.Repository, string, error) {
	return vRepo{}, "", nil
}

func vSetup(nproj, nver int) *Resolver {
	vNProj, vNVer = nproj, nver
	vTagged = nil
	for i := 0; i < nproj; i++ {
		for k := 0; k < nver; k++ {
			if vPatchy && vPseudoTop && k == nver-1 {
				continue // fetchable, but not a tag
			}
			vTagged = append(vTagged, &vcs.Version{Version: module.Version{Path: vPath(i), Version: vVersion(i, k)}, RevisionID: vNode(i, k)})
		}
	}
	return NewResolver("cache", nil, nil)
}

// vExpected: the minimal-version-selection answer computed independently: walk every (project,
// version) node reachable from the root requirements and keep the greatest version seen per project.
func vExpected(root []int) []int {
	best := make([]int, vNProj) // 0 = not reachable, k = version index k-1
	seen := map[string]bool{}
	var visit func(i, k int)
	visit = func(i, k int) {
		if seen[vNode(i, k)] {
			return
		}
		seen[vNode(i, k)] = true
		if k+1 > best[i] {
			best[i] = k + 1
		}
		for j, v := range vReqsOf(i, k) {
			if v > 0 {
				visit(j, v-1)
			}
		}
		for j, v := range vReqs2Of(i, k) {
			if v > 0 {
				visit(j, v-1)
			}
		}
	}
	for i, v := range root {
		if v > 0 {
			visit(i, v-1)
		}
	}
	return best
}

func vSameList(got map[string]string, want []int) bool {
	n := 0
	for i, v := range want {
		if v == 0 {
			if _, ok := got[vPath(i)]; ok {
				return false
			}
			continue
		}
		n++
		if got[vPath(i)] != vVersion(i, v-1) {
			return false
		}
	}
	extra := len(got) - n
	if _, ok := got[""]; ok {
		extra-- // the root itself is part of the library's list
	}
	return extra == 0
}
