package pickle

import (
	"bytes"
	"fmt"
	"math"

	"go.starlark.net/starlark"
)

// Translator validation: the repository's pickle test literals: the encoded bytes and the decoded
// value must be the same in the engine and natively.

func VConformPickle() {
	big1, _ := vParseBig("2147483648")
	big2, _ := vParseBig("-9223372036854775809")
	d := starlark.NewDict(2)
	d.SetKey(starlark.String("hello"), starlark.String("world"))
	d.SetKey(starlark.True, starlark.MakeInt(42))
	s := starlark.NewSet(3)
	s.Insert(starlark.String("hello"))
	s.Insert(starlark.MakeInt(42))
	s.Insert(starlark.True)
	l := starlark.NewList([]starlark.Value{starlark.String("hello"), starlark.MakeInt(42), starlark.True})
	vals := []starlark.Value{
		starlark.None, starlark.True, starlark.False,
		starlark.MakeInt(0), starlark.MakeInt(42), starlark.MakeInt(-42), starlark.MakeInt(255), starlark.MakeInt(256), starlark.MakeInt(65535), starlark.MakeInt(65536),
		starlark.MakeInt(70000), starlark.MakeInt(-70000), starlark.MakeInt(2147483647), starlark.MakeInt64(-2147483648), big1, big2,
		starlark.Float(0), starlark.Float(42), starlark.Float(-70000), starlark.Float(3.141592653589793), starlark.Float(math.Inf(1)), starlark.Float(math.Inf(-1)),
		starlark.String(""), starlark.String("hello, world!"), starlark.String("Hello, 世界"), starlark.Bytes(""), starlark.Bytes("\x00"), starlark.Bytes("\x80\x81\x82"),
		starlark.Tuple{}, starlark.Tuple{starlark.None}, starlark.Tuple{starlark.String("hello"), starlark.MakeInt(42)},
		starlark.Tuple{starlark.String("hello"), starlark.MakeInt(42), starlark.True}, starlark.Tuple{starlark.String("hello"), starlark.MakeInt(42), starlark.True, starlark.None},
		starlark.NewList(nil), starlark.NewList([]starlark.Value{starlark.None}), l, d, s, starlark.Tuple{l, l},
	}
	for _, x := range vals {
		var buf bytes.Buffer
		if err := NewEncoder(&buf, nil).Encode(x); err != nil {
			vNote("encode " + x.String() + " -> error " + err.Error())
			continue
		}
		enc := fmt.Sprintf("%x", buf.Bytes())
		y, err := NewDecoder(&buf, nil).Decode()
		if err != nil {
			vNote("encode " + x.String() + " -> " + enc + " decode error")
			continue
		}
		vNote("encode " + x.String() + " -> " + enc + " -> " + y.Type() + " " + y.String())
	}
	for _, raw := range []string{"", ".", "N.", "K\x05.", "M\x00\x01.", "J\xff\xff\xff\xff.", "I12\n.", "I1x\n.", "]K\x01a.", "(K\x01K\x02t.", "}(K\x01K\x02u.", "\x8c\x03abc.", "\x8c\x05abc.", "h\x00.", "N\x94h\x00.", "\x8f(K\x01K\x01\x90.", "NN\x93.", "\x00"} {
		y, err := NewDecoder(bytes.NewReader([]byte(raw)), nil).Decode()
		switch {
		case err != nil:
			// the message is not compared: the io.CopyN model reports EOF where the real one says
			// "unexpected EOF" for a truncated payload
			vNote(fmt.Sprintf("decode %x -> error", raw))
		case y == nil:
			vNote(fmt.Sprintf("decode %x -> nil", raw))
		default:
			vNote(fmt.Sprintf("decode %x -> %s %s", raw, y.Type(), y.String()))
		}
	}
}
