package pickle

import (
	"bytes"
	"io"

	"go.starlark.net/starlark"
)

// C15: decoding arbitrary bytes yields a non-nil value or an error; no panic escapes, nothing hangs.

// vCopyN stands in for io.CopyN inside decodeString. The property's own precondition is that
// declared lengths are bounded by the input size, so the copy is modelled byte by byte through the
// decoder's reader (whose Read panics with a decoder failure at end of input, exactly as the real
// io.ReadFull-based path does when the declared length exceeds what is left). What the model leaves
// out is only the size of the buffer the real io.Copy allocates for over-long declared lengths.
func vCopyN(dst io.Writer, src io.Reader, n int64) (int64, error) {
	var written int64
	var buf [1]byte
	for written < n {
		if _, err := src.Read(buf[:]); err != nil {
			return written, err
		}
		dst.Write(buf[:])
		written++
	}
	return written, nil
}

var vStubTable = map[string]string{
	"io.CopyN": "vCopyN",
}

func vPermissive(module, name string, args starlark.Tuple) (starlark.Value, error) {
	return starlark.Tuple{starlark.String(module), starlark.String(name), args}, nil
}

func vCheckDecode(data []byte, un Unpickler) {
	v, err := NewDecoder(bytes.NewReader(data), un).Decode()
	vAssert(err != nil || v != nil, "value-or-error")
	if err == nil {
		vReach("ok")
		switch v.(type) {
		case starlark.Int:
			vReach("ok-int")
		case starlark.String, starlark.Bytes:
			vReach("ok-string")
		case starlark.Tuple:
			vReach("ok-tuple")
		case *starlark.List, *starlark.Dict, *starlark.Set:
			vReach("ok-container")
		}
	} else {
		vReach("err")
	}
}

// VHarnessC15Bytes: every byte string of length n. The decimal-text opcode INT is assumed away here
// (big.Int text conversion of symbolic digits is not encodable) and covered by VHarnessC15IntText.
func VHarnessC15Bytes() {
	n := vParam("n")
	data := make([]byte, n)
	for i := range data {
		data[i] = vNondetU8("b")
		vAssume(data[i] != opINT)
	}
	if n > 0 {
		// the exploration is split over the first byte's high nibble, one chunk per worker
		vAssume(int(data[0]>>4) == vParam("chunk"))
	}
	if vParam("unpickler") == 0 {
		vCheckDecode(data, nil)
	} else {
		vCheckDecode(data, UnpicklerFunc(vPermissive))
	}
}

// VHarnessC15BytesTwin: reachability twin (a successful decode must be reachable).
func VHarnessC15BytesTwin() {
	n := vParam("n")
	data := make([]byte, n)
	for i := range data {
		data[i] = vNondetU8("b")
		vAssume(data[i] != opINT)
	}
	if _, err := NewDecoder(bytes.NewReader(data), nil).Decode(); err == nil {
		vAssert(false, "twin")
	}
}

var vIntTexts = []string{"", "0", "-", "12", "-7", "1x", "99999999999999999999", "0x10", "+5", " 1", "1 ", "1_000", "0b11", "\x00"}

// VHarnessC15IntText: the INT opcode on concrete digit strings, with a symbolic terminator and tail.
func VHarnessC15IntText() {
	t := vIntTexts[vParam("k")]
	data := append([]byte{opINT}, t...)
	data = append(data, vNondetU8("term"), vNondetU8("next"))
	vAssume(data[len(data)-2] != opINT && data[len(data)-1] != opINT)
	vCheckDecode(data, nil)
}

// VHarnessC15Corrupt: single-byte corruptions and truncations of a valid encoding: a value is
// encoded, one byte at a symbolic position is replaced by an arbitrary byte (or the stream is cut
// there), and the result must decode to a value or an error.
func VHarnessC15Corrupt() {
	d := starlark.NewDict(2)
	d.SetKey(starlark.String("k"), starlark.NewList([]starlark.Value{starlark.MakeInt(7), starlark.String("ab")}))
	var x starlark.Value
	switch vParam("shape") {
	case 0:
		x = starlark.Tuple{starlark.String("ab"), starlark.MakeInt(300), starlark.None}
	case 1:
		x = d
	default:
		l := starlark.NewList([]starlark.Value{starlark.Bytes("xy"), starlark.Float(1.5)})
		x = starlark.Tuple{l, l}
	}
	var buf bytes.Buffer
	if err := NewEncoder(&buf, nil).Encode(x); err != nil {
		return
	}
	data := buf.Bytes()
	pos := vParam("pos")
	if pos >= len(data) {
		return
	}
	vReach("in-range")
	if vParam("cut") == 1 {
		vCheckDecode(data[:pos], nil)
		return
	}
	b := vNondetU8("b")
	vAssume(b != opINT)
	mut := append([]byte{}, data...)
	mut[pos] = b
	vCheckDecode(mut, nil)
}

// ---- one inductive step from an arbitrary decoder state ----

// vSlot builds a stack/memo slot of kind k; scalars carry symbolic payloads.
func vSlot(k int, tag string) starlark.Value {
	switch k {
	case 0:
		return mark
	case 1:
		return &global{module: "m", name: "n"}
	case 2:
		return starlark.None
	case 3:
		return starlark.MakeInt(int(vNondetU8(tag)))
	case 4:
		return starlark.String([]byte{vNondetU8(tag)})
	case 5:
		return starlark.Tuple{starlark.MakeInt(1)}
	case 6:
		return starlark.NewList([]starlark.Value{starlark.None})
	case 7:
		return starlark.NewDict(0)
	case 8:
		return starlark.NewSet(0)
	default:
		return starlark.Bool(vNondetBool(tag))
	}
}

const vSlotKinds = 10

type vOp struct {
	op       byte
	operands int
	str      bool
}

var vOps = []vOp{
	{opMARK, 0, false}, {opMEMOIZE, 0, false}, {opBINGET, 1, false}, {opLONG_BINGET, 4, false}, {opSTOP, 0, false},
	{opNONE, 0, false}, {opNEWTRUE, 0, false}, {opNEWFALSE, 0, false}, {opBININT1, 1, false}, {opBININT2, 2, false},
	{opBININT, 4, false}, {opBINFLOAT, 8, false}, {opSHORT_BINUNICODE, 1, true}, {opBINUNICODE, 4, true},
	{opSHORT_BINBYTES, 1, true}, {opBINBYTES, 4, true}, {opEMPTY_LIST, 0, false}, {opAPPEND, 0, false}, {opAPPENDS, 0, false},
	{opEMPTY_TUPLE, 0, false}, {opTUPLE1, 0, false}, {opTUPLE2, 0, false}, {opTUPLE3, 0, false}, {opTUPLE, 0, false},
	{opEMPTY_DICT, 0, false}, {opSETITEMS, 0, false}, {opEMPTY_SET, 0, false}, {opADDITEMS, 0, false}, {opSTACK_GLOBAL, 0, false},
	{opNEWOBJ, 0, false},
}

// VHarnessC15Step: from an arbitrary decoder state (stack depth vParam("depth"), every slot any of
// the ten kinds, a memo of 0..2 entries) one arbitrary opcode with arbitrary operand bytes is
// executed, followed by end of input. Decode must return a value or an error, and every stack
// slot must stay non-nil (the invariant that makes the bounded result extend to inputs of any length).
func VHarnessC15Step() {
	depth := vParam("depth")
	d := NewDecoder(nil, UnpicklerFunc(vPermissive))
	for i := 0; i < depth; i++ {
		// the bottom slots' kinds come from the case parameters (one worker per combination), the
		// others are environment choices
		k := 0
		switch {
		case i == 0 && vParam("k0") >= 0:
			k = vParam("k0")
		case i == 1 && vParam("k1") >= 0:
			k = vParam("k1")
		default:
			k = vChoose("kind", vSlotKinds)
		}
		d.stack = append(d.stack, vSlot(k, "slot"))
	}
	nm := vChoose("memo", 3)
	for i := 0; i < nm; i++ {
		d.memo = append(d.memo, vSlot(2+i*4, "memo")) // None, list, (bool)
	}
	// the opcode: one of the implemented ones (concrete, chosen by the solver-visible decision) or
	// any other byte; operands are symbolic and as many as that opcode reads
	var data []byte
	k := vChoose("op", len(vOps)+1)
	if k == len(vOps) {
		op := vNondetU8("other")
		for _, o := range vOps {
			vAssume(op != o.op)
		}
		vAssume(op != opINT)
		data = []byte{op}
	} else {
		data = []byte{vOps[k].op}
		for i := 0; i < vOps[k].operands; i++ {
			data = append(data, vNondetU8("operand"))
		}
		if vOps[k].str {
			// string opcodes: declared length 0, 1 or 2 with that many symbolic payload bytes, or a
			// symbolic length > 2 with a truncated payload (the operand bytes above are overwritten)
			l := vChoose("strlen", 4)
			for i := 1; i < len(data); i++ {
				data[i] = 0
			}
			if l < 3 {
				data[1] = byte(l)
				for i := 0; i < l; i++ {
					data = append(data, vNondetU8("payload"))
				}
			} else {
				for i := 1; i < len(data); i++ {
					data[i] = vNondetU8("biglen")
				}
				vAssume(data[1] > 2)
				data = append(data, vNondetU8("payload"))
			}
		}
	}
	if vNondetBool("stop") {
		data = append(data, opSTOP)
	}
	d.r = reader{bytes.NewReader(data)}
	v, err := d.Decode()
	vAssert(err != nil || v != nil, "value-or-error")
	for _, s := range d.stack {
		vAssert(s != nil, "stack-slot-non-nil")
	}
	for _, s := range d.memo {
		vAssert(s != nil, "memo-slot-non-nil")
	}
	if err == nil {
		vReach("step-ok")
	} else {
		vReach("step-err")
	}
}
