package pickle

import (
	"bytes"
	"math"
	"math/big"

	"go.starlark.net/starlark"
)

// C07: decode(encode(x)) is isomorphic to x — same dynamic types, scalars equal (ints by value,
// floats by bit pattern, strings bytewise), same lengths and the same sharing of mutable containers.

func vIntEq(a, b starlark.Value) bool {
	x, ok1 := a.(starlark.Int)
	y, ok2 := b.(starlark.Int)
	if !ok1 || !ok2 {
		return false
	}
	xv, okx := x.Int64()
	yv, oky := y.Int64()
	if okx != oky {
		return false
	}
	if okx {
		return xv == yv
	}
	return x.BigInt().Cmp(y.BigInt()) == 0
}

// vIso checks that y is an isomorphic copy of x; fwd/bwd must stay a bijection on mutable containers.
func vIso(x, y starlark.Value, fwd, bwd map[starlark.Value]starlark.Value) bool {
	switch x := x.(type) {
	case starlark.NoneType:
		_, ok := y.(starlark.NoneType)
		return ok
	case starlark.Bool:
		yb, ok := y.(starlark.Bool)
		return ok && x == yb
	case starlark.Int:
		return vIntEq(x, y)
	case starlark.Float:
		yf, ok := y.(starlark.Float)
		return ok && math.Float64bits(float64(x)) == math.Float64bits(float64(yf))
	case starlark.String:
		ys, ok := y.(starlark.String)
		return ok && x == ys
	case starlark.Bytes:
		ys, ok := y.(starlark.Bytes)
		return ok && x == ys
	case starlark.Tuple:
		yt, ok := y.(starlark.Tuple)
		if !ok || len(x) != len(yt) {
			return false
		}
		for i := range x {
			if !vIso(x[i], yt[i], fwd, bwd) {
				return false
			}
		}
		return true
	case *starlark.List:
		yl, ok := y.(*starlark.List)
		if !ok {
			return false
		}
		if m, seen := fwd[x]; seen {
			return m == starlark.Value(yl)
		}
		if _, seen := bwd[yl]; seen {
			return false
		}
		fwd[x], bwd[yl] = yl, x
		if x.Len() != yl.Len() {
			return false
		}
		for i := 0; i < x.Len(); i++ {
			if !vIso(x.Index(i), yl.Index(i), fwd, bwd) {
				return false
			}
		}
		return true
	case *starlark.Dict:
		yd, ok := y.(*starlark.Dict)
		if !ok {
			return false
		}
		if m, seen := fwd[x]; seen {
			return m == starlark.Value(yd)
		}
		if _, seen := bwd[yd]; seen {
			return false
		}
		fwd[x], bwd[yd] = yd, x
		if x.Len() != yd.Len() {
			return false
		}
		xi, yi := x.Items(), yd.Items()
		for i := range xi { // insertion order is part of a dict's contents
			if !vIso(xi[i][0], yi[i][0], fwd, bwd) || !vIso(xi[i][1], yi[i][1], fwd, bwd) {
				return false
			}
		}
		return true
	case *starlark.Set:
		ys, ok := y.(*starlark.Set)
		if !ok {
			return false
		}
		if m, seen := fwd[x]; seen {
			return m == starlark.Value(ys)
		}
		if _, seen := bwd[ys]; seen {
			return false
		}
		fwd[x], bwd[ys] = ys, x
		if x.Len() != ys.Len() {
			return false
		}
		xe, ye := x.Elems(), ys.Elems()
		for i := range xe {
			if !vIso(xe[i], ye[i], fwd, bwd) {
				return false
			}
		}
		return true
	case *vHostVal:
		yh, ok := y.(*vHostVal)
		if !ok {
			return false
		}
		if m, seen := fwd[x]; seen {
			return m == starlark.Value(yh)
		}
		if _, seen := bwd[yh]; seen {
			return false
		}
		fwd[x], bwd[yh] = yh, x
		return x.tag == yh.tag && vIso(x.payload, yh.payload, fwd, bwd)
	}
	return false
}

func vSame(x, y starlark.Value) bool {
	return vIso(x, y, map[starlark.Value]starlark.Value{}, map[starlark.Value]starlark.Value{})
}

// vHostVal is a value only a host pickler can encode.
type vHostVal struct {
	tag     string
	payload starlark.Value
}

func (*vHostVal) String() string        { return "host" }
func (*vHostVal) Type() string          { return "host" }
func (*vHostVal) Freeze()               {}
func (*vHostVal) Truth() starlark.Bool  { return starlark.True }
func (*vHostVal) Hash() (uint32, error) { return 7, nil }

func vPickler(x starlark.Value) (string, string, starlark.Tuple, error) {
	if h, ok := x.(*vHostVal); ok {
		return "verif", h.tag, starlark.Tuple{h.payload}, nil
	}
	return "", "", nil, ErrCannotPickle
}

func vUnpickler(module, name string, args starlark.Tuple) (starlark.Value, error) {
	if module != "verif" || len(args) != 1 {
		return nil, ErrCannotPickle
	}
	return &vHostVal{tag: name, payload: args[0]}, nil
}

func vRoundTrip(x starlark.Value) (starlark.Value, error) {
	var buf bytes.Buffer
	if err := NewEncoder(&buf, PicklerFunc(vPickler)).Encode(x); err != nil {
		return nil, err
	}
	y, err := NewDecoder(&buf, UnpicklerFunc(vUnpickler)).Decode()
	if err == nil {
		vAssert(buf.Len() == 0, "decoder-consumed-the-whole-encoding")
	}
	return y, err
}

func vCheckRoundTrip(x starlark.Value, tag string) {
	y, err := vRoundTrip(x)
	if err != nil {
		vNote(tag + ": " + err.Error())
	}
	vAssert(err == nil, tag+"-roundtrip-ok")
	if err != nil {
		return
	}
	vAssert(y != nil, tag+"-non-nil")
	if y == nil {
		return
	}
	vAssert(vSame(x, y), tag+"-isomorphic")
}

// ---- 7a integers ----

// VHarnessC07Int: every integer of the int32 range (one symbolic 32-bit value) round-trips; this
// decides the BININT1 / BININT2 / BININT arms for all 2^32 values.
func VHarnessC07Int() {
	i := int64(int32(vNondetU32("i")))
	vRegion("D1-binint2", i >= 256 && i <= 65535)
	vCheckRoundTrip(starlark.MakeInt64(i), "int")
	vReach("done")
}

// VHarnessC07IntTwin: reachability twin.
func VHarnessC07IntTwin() {
	i := int64(int32(vNondetU32("i")))
	if _, err := vRoundTrip(starlark.MakeInt64(i)); err == nil {
		vAssert(false, "twin")
	}
}

// Two different small integers never decode to equal values ("values that differ never decode equal").
func VHarnessC07IntInjective() {
	i := int64(int32(vNondetU32("i")))
	j := int64(int32(vNondetU32("j")))
	vAssume(i != j)
	vRegion("D1-binint2", (i >= 256 && i <= 65535) || (j >= 256 && j <= 65535))
	a, err1 := vRoundTrip(starlark.MakeInt64(i))
	b, err2 := vRoundTrip(starlark.MakeInt64(j))
	if err1 != nil || err2 != nil || a == nil || b == nil {
		return
	}
	vAssert(!vIntEq(a, b), "different-ints-decode-different")
	vReach("done")
}

var vBigInts = []string{
	"2147483648", "-2147483649", "2147483647", "-2147483648", "4294967296", "9223372036854775807", "-9223372036854775808",
	"9223372036854775808", "-9223372036854775809", "18446744073709551616", "1000000000000000000000000000000", "-1000000000000000000000000000000",
	"340282366920938463463374607431768211456",
}

// VHarnessC07BigInt: integers outside int32 go through big.Int decimal text; concrete boundary
// values (the text conversion is not encodable symbolically: division by 10^9).
func VHarnessC07BigInt() {
	s := vBigInts[vParam("k")]
	x, ok := vParseBig(s)
	vAssume(ok)
	vCheckRoundTrip(x, "bigint")
	vReach("done")
}

// ---- 7b floats ----

// VHarnessC07Float: all 2^64 bit patterns, NaN payloads included.
func VHarnessC07Float() {
	bits := vNondetU64("bits")
	vCheckRoundTrip(starlark.Float(math.Float64frombits(bits)), "float")
	vReach("done")
}

// ---- 7c strings and bytes ----

var vStrLens = []int{0, 1, 2, 255, 256, 257, 65535, 65536, 70000}

// VHarnessC07String: header arithmetic for the length classes, every content byte symbolic.
func VHarnessC07String() {
	n := vStrLens[vParam("len")]
	b := make([]byte, n)
	for i := range b {
		if i < 3 || i >= n-3 {
			b[i] = vNondetU8("c")
		} else {
			b[i] = byte(i)
		}
	}
	if vParam("kind") == 0 {
		vCheckRoundTrip(starlark.String(b), "string")
	} else {
		vCheckRoundTrip(starlark.Bytes(b), "bytes")
	}
	vReach("done")
}

func vParseBig(s string) (starlark.Value, bool) {
	i, ok := new(big.Int).SetString(s, 10)
	if !ok {
		return nil, false
	}
	return starlark.MakeBigInt(i), true
}

// ---- 7d containers ----

func vLeaf(tag string) starlark.Value {
	// a symbolic small integer over all three BININT arms
	i := int64(int32(vNondetU32(tag)))
	vRegion("D1-binint2", i >= 256 && i <= 65535)
	return starlark.MakeInt64(i)
}

var vSizes = []int{0, 1, 2, 3, 4, 5, 999, 1000, 1001, 2001}

// vBulk builds n elements: the first, the 1000th/1001st and the last few symbolic, the rest concrete.
func vBulk(n int, distinct bool) []starlark.Value {
	elems := make([]starlark.Value, n)
	for i := range elems {
		switch {
		case distinct:
			elems[i] = starlark.MakeInt(100000 + i) // distinct keys; values are the symbolic part
		case n > 8 && (i < 1 || i >= n-1 || i == 999 || i == 1000):
			elems[i] = vSmall("e")
		case n <= 8 && (i < 2 || i >= n-2):
			elems[i] = vLeaf("e")
		default:
			elems[i] = starlark.MakeInt(i % 7)
		}
	}
	return elems
}

func vContainer(kind, n int) starlark.Value {
	switch kind {
	case 0:
		return starlark.Tuple(vBulk(n, false))
	case 1:
		return starlark.NewList(vBulk(n, false))
	case 2:
		d := starlark.NewDict(n)
		for i, k := range vBulk(n, true) {
			var v starlark.Value = starlark.MakeInt(i % 5)
			if n > 8 && (i < 1 || i >= n-1 || i == 999 || i == 1000) {
				v = vSmall("v")
			} else if n <= 8 && (i < 2 || i >= n-2) {
				v = vLeaf("v")
			}
			d.SetKey(k, v)
		}
		return d
	default:
		s := starlark.NewSet(n)
		for _, k := range vBulk(n, true) {
			s.Insert(k)
		}
		return s
	}
}

// VHarnessC07Container: every container kind at every size class, at five nesting positions.
// position 0: top level; 1: first of a 2-tuple; 2: second of a 2-tuple; 3: list element; 4: dict value.
func VHarnessC07Container() {
	kind, n, pos := vParam("kind"), vSizes[vParam("size")], vParam("pos")
	if n > 1000 {
		vRegion("D2-batches", true)
	}
	c := vContainer(kind, n)
	var x starlark.Value
	switch pos {
	case 0:
		x = c
	case 1:
		x = starlark.Tuple{c, starlark.String("z")}
	case 2:
		x = starlark.Tuple{starlark.String("a"), c}
	case 3:
		x = starlark.NewList([]starlark.Value{starlark.String("a"), c, starlark.String("z")})
	default:
		d := starlark.NewDict(2)
		d.SetKey(starlark.String("k"), c)
		d.SetKey(starlark.String("l"), starlark.String("z"))
		x = d
	}
	vCheckRoundTrip(x, "container")
	vReach("done")
}

// ---- 7e aliasing, self-reference, host-pickled values ----

func vSmall(tag string) starlark.Value {
	b := vNondetU8(tag)
	return starlark.MakeInt(int(b))
}

// VHarnessC07Alias: sharing and self-reference survive the round trip.
func VHarnessC07Alias() {
	var x starlark.Value
	switch vParam("shape") {
	case 0: // the same list twice in a tuple
		l := starlark.NewList([]starlark.Value{vSmall("leaf")})
		x = starlark.Tuple{l, l}
	case 1: // two equal but distinct lists
		x = starlark.Tuple{starlark.NewList([]starlark.Value{vSmall("leaf")}), starlark.NewList([]starlark.Value{vSmall("leaf")})}
	case 2: // a list containing itself
		l := starlark.NewList([]starlark.Value{vSmall("leaf")})
		l.Append(l)
		x = l
	case 3: // a dict holding itself as a value and a shared list under two keys
		d := starlark.NewDict(3)
		l := starlark.NewList([]starlark.Value{vSmall("leaf"), vSmall("leaf")})
		d.SetKey(starlark.String("self"), d)
		d.SetKey(starlark.String("p"), l)
		d.SetKey(starlark.String("q"), l)
		x = d
	case 4: // nesting with a shared inner list at two depths
		in := starlark.NewList([]starlark.Value{vSmall("leaf")})
		x = starlark.Tuple{in, starlark.NewList([]starlark.Value{in, starlark.Tuple{in, vSmall("leaf")}})}
	case 5: // tuple sizes 0..5 nested
		x = starlark.Tuple{starlark.Tuple{}, starlark.Tuple{vSmall("leaf")}, starlark.Tuple{vSmall("leaf"), vSmall("leaf")}, starlark.Tuple{vSmall("leaf"), vSmall("leaf"), vSmall("leaf")},
			starlark.Tuple{vSmall("leaf"), vSmall("leaf"), vSmall("leaf"), vSmall("leaf")}, starlark.Tuple{vSmall("leaf"), vSmall("leaf"), vSmall("leaf"), vSmall("leaf"), vSmall("leaf")}}
	case 6: // a host-pickled value referenced twice, holding a shared list
		l := starlark.NewList([]starlark.Value{vSmall("leaf")})
		h := &vHostVal{tag: "t", payload: l}
		x = starlark.Tuple{h, l, h}
	case 7: // a set shared by a list and a dict; a set of tuples
		s := starlark.NewSet(2)
		s.Insert(starlark.Tuple{starlark.String("a"), starlark.MakeInt(1)})
		s.Insert(starlark.String("b"))
		d := starlark.NewDict(1)
		d.SetKey(starlark.String("s"), s)
		x = starlark.NewList([]starlark.Value{s, d, vSmall("leaf")})
	case 8: // more than 256 memoised containers, then back-references (LONG_BINGET)
		var elems []starlark.Value
		for i := 0; i < 300; i++ {
			elems = append(elems, starlark.NewList([]starlark.Value{starlark.MakeInt(i % 3)}))
		}
		elems = append(elems, elems[0], elems[255], elems[256], elems[299], vSmall("leaf"))
		x = starlark.NewList(elems)
	case 10: // the same EMPTY list, dict and set each referenced twice (size class 0 x aliasing)
		l, d, st := starlark.NewList(nil), starlark.NewDict(0), starlark.NewSet(0)
		x = starlark.Tuple{l, d, st, starlark.NewList([]starlark.Value{l, d, st}), vSmall("leaf")}
	case 11: // equal-but-distinct empty containers must stay distinct
		x = starlark.Tuple{starlark.NewList(nil), starlark.NewList(nil), starlark.NewDict(0), starlark.NewDict(0), starlark.NewSet(0), starlark.NewSet(0), vSmall("leaf")}
	case 12: // a shared one-element list and a shared list of > 1000 elements
		one := starlark.NewList([]starlark.Value{vSmall("leaf")})
		big := starlark.NewList(vBulk(1001, false))
		x = starlark.Tuple{one, big, one, big}
	case 9: // None, booleans, floats, strings and bytes as container elements and dict keys
		d := starlark.NewDict(4)
		d.SetKey(starlark.None, starlark.True)
		d.SetKey(starlark.False, starlark.Float(math.Float64frombits(vNondetU64("f"))))
		d.SetKey(starlark.String("s"), starlark.Bytes([]byte{vNondetU8("b"), 0}))
		d.SetKey(starlark.MakeInt(3), starlark.Tuple{starlark.None})
		x = d
	}
	vCheckRoundTrip(x, "alias")
	vReach("done")
}

// VHarnessC07Differ: two containers that differ in one leaf never decode to equal values.
func VHarnessC07Differ() {
	a, b := vSmall("a"), vSmall("b")
	mk := func(leaf starlark.Value) starlark.Value {
		return starlark.Tuple{starlark.NewList([]starlark.Value{starlark.String("x"), leaf}), starlark.String("y")}
	}
	x, y := mk(a), mk(b)
	dx, err1 := vRoundTrip(x)
	dy, err2 := vRoundTrip(y)
	if err1 != nil || err2 != nil || dx == nil || dy == nil {
		return
	}
	vAssert(vSame(x, y) == vSame(dx, dy), "decoded-equal-iff-originals-equal")
	vReach("done")
}
