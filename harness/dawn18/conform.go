package dawn

// Translator validation: the repository's lineWriter test chunkings.

func VConformLines() {
	cases := [][]string{
		{"here's\nsome ", "text", " with multiple\n", "lines"}, {"here's text without newlines"}, {"here's\n", "simple\n", "text\n"},
		{"here's\nsimple\ntext\n"}, {"many\n\n\n\n\nblank lines"}, {"", "a", "", "\n", ""}, {"\n\n", "x"},
	}
	for _, chunks := range cases {
		ev := &vLines{}
		w := newLineWriter(nil, ev)
		for _, c := range chunks {
			w.Write([]byte(c))
		}
		w.Flush()
		s := ""
		for _, l := range ev.lines {
			s += "[" + l + "]"
		}
		vNote(s)
	}
}
