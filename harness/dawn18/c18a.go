package dawn

import "github.com/pgavlin/dawn/label"

// C18 (output): a target's output is delivered as lines exactly once, in order, whatever the
// chunking of the writes — on every evaluation through the same writer (a function's writer is
// created at load time and flushed at the end of every evaluation, so a project that is run twice
// in one process, as the REPL and watch mode do, reuses it).

type vLines struct {
	discardEventsT
	lines []string
}

func (e *vLines) Print(_ *label.Label, line string) { e.lines = append(e.lines, line) }

// vSplit: the expected lines of data — split at '\n'; a trailing partial line is delivered by Flush.
func vSplit(data []byte) []string {
	var out []string
	start := 0
	for i := 0; i < len(data); i++ {
		if data[i] == '\n' {
			out = append(out, string(data[start:i]))
			start = i + 1
		}
	}
	if start < len(data) {
		out = append(out, string(data[start:]))
	}
	return out
}

func vRound(w *lineWriter, ev *vLines, n int, tag string) {
	data := make([]byte, n)
	for i := range data {
		data[i] = vNondetU8(tag)
	}
	// cut into three writes at every pair of positions
	c1 := int(vNondetU8(tag + "-cut1"))
	c2 := int(vNondetU8(tag + "-cut2"))
	vAssume(c1 <= c2 && c2 <= n)
	ev.lines = nil
	for _, chunk := range [][]byte{data[:c1], data[c1:c2], data[c2:]} {
		k, err := w.Write(chunk)
		vAssert(err == nil && k == len(chunk), tag+"-write-returns-len")
	}
	vAssert(w.Flush() == nil, tag+"-flush-ok")
	want := vSplit(data)
	vAssert(len(ev.lines) == len(want), tag+"-line-count")
	if len(ev.lines) == len(want) {
		for i := range want {
			vAssert(ev.lines[i] == want[i], tag+"-line-content")
		}
	}
}

// VHarnessC18Lines: n bytes in round one, m bytes in round two (m < 0: one round only).
func VHarnessC18Lines() {
	ev := &vLines{}
	w := newLineWriter(nil, ev)
	vRound(w, ev, vParam("n"), "round1")
	vReach("round1")
	if m := vParam("m"); m >= 0 {
		vRegion("D9-stale-partial-line", true)
		vRound(w, ev, m, "round2")
		vReach("round2")
	}
}

// VHarnessC18LinesTwin: reachability twin.
func VHarnessC18LinesTwin() {
	ev := &vLines{}
	w := newLineWriter(nil, ev)
	w.Write([]byte{vNondetU8("b"), '\n'})
	if len(ev.lines) == 1 {
		vAssert(false, "twin")
	}
}

// VHarnessC18Long: a long line arriving in several writes (as from os/exec's 32 KiB copies) is still
// delivered as one line. The bulk is concrete; the bytes at the chunk boundaries and at both ends are
// symbolic (so a newline may or may not sit there).
func VHarnessC18Long() {
	n, chunk := vParam("n"), vParam("chunk")
	data := make([]byte, n)
	for i := range data {
		if i == 0 || i == n-1 || i%chunk == 0 || i%chunk == chunk-1 {
			data[i] = vNondetU8("b")
		} else {
			data[i] = 'a'
		}
	}
	ev := &vLines{}
	w := newLineWriter(nil, ev)
	for off := 0; off < n; off += chunk {
		end := off + chunk
		if end > n {
			end = n
		}
		k, err := w.Write(data[off:end])
		vAssert(err == nil && k == end-off, "long-write-returns-len")
	}
	vAssert(w.Flush() == nil, "long-flush-ok")
	want := vSplit(data)
	vAssert(len(ev.lines) == len(want), "long-line-count")
	if len(ev.lines) == len(want) {
		for i := range want {
			vAssert(ev.lines[i] == want[i], "long-line-content")
		}
	}
	vReach("long")
}
