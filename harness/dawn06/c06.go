package dawn

import (
	"sync"
	"time"

	"github.com/pgavlin/dawn/label"
	"go.starlark.net/starlark"
)

// C06: module loading is once-only, terminating and cycle-safe — thread-modular obligations on
// Project.loadModule and module.{wait,done,setLoading,getLoading}. The engine is sequential: at every
// lock acquisition and every wake-up the hooks below play the other threads (the rely), and at
// every release they check what this thread guarantees. A Lock of a mutex the thread already holds
// is reported by the engine as a self-deadlock.

func vNewModule(name string) *module {
	m := &module{label: &label.Label{Kind: "module", Package: "//", Name: name}}
	m.cond = sync.NewCond(&m.m)
	return m
}

var (
	vWaits   int
	vTarget  *module // the module being waited for
	vData    starlark.StringDict
	vErr     error
	vEvents  []string
	vProj    *Project
	vLabel   string
	vOther   *module
	vMode    string
	vAcquire int
)

// vOnWait: the thread parks on a condition variable (its mutex is released by the engine).
func vOnWait(c *sync.Cond) {
	vWaits++
	vAssume(vWaits <= 2) // unwinding bound on wake-ups
	vReach("parked")
	if vMode == "wait" {
		// wake rely: a module broadcasts only after done() published data/err and set loaded
		// (M-DONE's guarantee); Go's Cond.Wait has no spurious wake-ups
		vTarget.data, vTarget.err = vData, vErr
		vTarget.loaded = true
	}
}

func vOnAcquire(m *sync.Mutex) {
	vAcquire++
	if vMode == "reg" && m == &vProj.m {
		// rely: while this thread did not hold the registry lock, another loader may have
		// registered the label
		if _, ok := vProj.modules[vLabel]; !ok && vNondetBool("other-registers") {
			vProj.modules[vLabel] = vOther
		}
		_, present := vProj.modules[vLabel]
		vEvents = append(vEvents, map[bool]string{true: "acquire:present", false: "acquire:absent"}[present])
	}
}

func vOnRelease(m *sync.Mutex) {
	if vMode == "done" && m == &vTarget.m {
		// guarantee: whenever loaded is visible, data and err are already published
		if vTarget.loaded {
			vAssert(vTarget.err == vErr && len(vTarget.data) == len(vData), "done-publishes-before-loaded")
			vEvents = append(vEvents, "released-loaded")
		}
	}
}

func vOnBroadcast(c *sync.Cond) {
	if vMode == "load" {
		vAssert(vTarget.loaded, "done-broadcasts-after-loaded")
		vEvents = append(vEvents, "broadcast")
	}
	if vMode == "done" {
		vAssert(vTarget.loaded, "done-broadcasts-after-loaded")
		vEvents = append(vEvents, "broadcast")
	}
}

type vErrT string

func (e vErrT) Error() string { return string(e) }

// VHarnessC06Wait (M-WAIT): wait(waiter) on every loading chain m0 -> m0.loading -> ... of length
// <= vParam("chain"): each link is nil, the waiter, or the next module. It must not re-acquire a
// mutex it holds, must report a cyclic dependency iff the waiter is on the chain, and otherwise park
// and, once woken, return the published data and error.
func VHarnessC06Wait() {
	vMode = "wait"
	n := vParam("chain")
	waiter := vNewModule("w")
	mods := make([]*module, n+1)
	for i := range mods {
		mods[i] = vNewModule(string(rune('a' + i)))
	}
	vTarget = mods[0]
	vData = starlark.StringDict{"x": starlark.None}
	if vNondetBool("load-fails") {
		vData, vErr = nil, vErrT("load failed")
	}
	nilWaiter := vParam("nilwaiter") == 1
	onChain := false
	cur := mods[0]
	for i := 0; i < n; i++ {
		k := vChoose("link", 3) // 0: end of chain; 1: the waiter; 2: another module
		if k == 0 {
			break
		}
		if k == 1 {
			cur.loading = waiter
			onChain = true
			break
		}
		cur.loading = mods[i+1]
		cur = mods[i+1]
		if i >= 1 {
			vRegion("D8-wait-self-deadlock", true)
		}
	}
	if mods[0].loading != nil && mods[0].loading != waiter {
		vRegion("D8-wait-self-deadlock", true)
	}
	var data starlark.StringDict
	var err error
	if vNative() {
		// replay on the native build with real sync primitives: the load finishes (done) 100 ms
		// after the wait starts unless a cycle is expected; a wait that has not returned after
		// 3 s is the hang
		w := waiter
		if nilWaiter {
			w, onChain = nil, false
		}
		res := make(chan error, 1)
		go func() {
			d, e := mods[0].wait(w)
			data = d
			res <- e
		}()
		if !onChain {
			go func() {
				time.Sleep(100 * time.Millisecond)
				mods[0].done(vData, vErr)
			}()
		}
		select {
		case err = <-res:
		case <-time.After(3 * time.Second):
			vAssert(false, "wait-hangs")
			return
		}
		if onChain {
			vAssert(err != nil, "cycle-reported-without-blocking")
		} else {
			vAssert(err == vErr && len(data) == len(vData), "returns-published-outcome")
		}
		return
	}
	if nilWaiter {
		data, err = mods[0].wait(nil)
		onChain = false
	} else {
		data, err = mods[0].wait(waiter)
	}
	if onChain {
		vAssert(err != nil && vWaits == 0, "cycle-reported-without-blocking")
		vReach("cycle")
	} else {
		vAssert(vWaits >= 1, "no-cycle-waits-for-the-load")
		vAssert(err == vErr && len(data) == len(vData), "returns-published-outcome")
		vReach("no-cycle")
	}
	vAssert(vAcquire >= 1, "lock-taken")
}

// VHarnessC06Done (M-DONE): done publishes data and error before loaded becomes visible, then
// broadcasts, and returns what it was given.
func VHarnessC06Done() {
	vMode = "done"
	m := vNewModule("m")
	vTarget = m
	vData = starlark.StringDict{"x": starlark.None}
	if vNondetBool("load-fails") {
		vData, vErr = nil, vErrT("load failed")
	}
	d, err := m.done(vData, vErr)
	vAssert(err == vErr && len(d) == len(vData), "done-returns-its-arguments")
	vAssert(m.loaded, "done-sets-loaded")
	ok := len(vEvents) == 2 && vEvents[0] == "released-loaded" && vEvents[1] == "broadcast"
	vAssert(ok, "done-releases-then-broadcasts")
	vReach("done")
}

var vStubTableFor = map[string]map[string]string{
	"VHarnessC06Load": {
		"(*github.com/pgavlin/dawn.module).env": "vEnvStub",
		"go.starlark.net/starlark.ExecFile":     "vExecFileStub",
	},
	"VHarnessC06Registry": {
		"(*github.com/pgavlin/dawn.module).load": "vLoadStub",
		"(*github.com/pgavlin/dawn.module).wait": "vWaitStub",
	},
}

var vLoaded, vWaited []*module
var vWaiterEdgeAtWait *module

func vLoadStub(m *module, proj *Project) (starlark.StringDict, error) {
	vAssert(vHeld() == 0, "M-LOCKS: a lock is held while a module file executes")
	vLoaded = append(vLoaded, m)
	return nil, nil
}

func vWaitStub(m *module, waiter *module) (starlark.StringDict, error) {
	// wait blocks until the module has loaded: no lock may be held across it (the module being
	// loaded needs the registry lock to load further modules and to register targets)
	vAssert(vHeld() == 0, "M-LOCKS: a lock is held across the blocking wait for a module")
	vWaited = append(vWaited, m)
	if waiter != nil {
		vWaiterEdgeAtWait = waiter.loading
	}
	return nil, nil
}

// VHarnessC06Registry (M-REG): from any registry state, with other loaders registering the label at
// any moment the registry lock is not held, loadModule executes the module iff the label was absent
// when it took the lock — check and insert in one critical section — and otherwise waits for the
// registered module, having published the waiter's loading edge first; the edge is cleared on return.
func VHarnessC06Registry() {
	vMode = "reg"
	l := &label.Label{Kind: "module", Package: "//p", Name: "m"}
	vLabel = l.String()
	vProj = &Project{modules: map[string]*module{}, events: DiscardEvents}
	vOther = vNewModule("other")
	if vNondetBool("already-registered") {
		vProj.modules[vLabel] = vOther
	}
	var waiter *module
	if vParam("waiter") == 1 {
		waiter = vNewModule("w")
	}
	_, err := vProj.loadModule(waiter, l)
	vAssert(err == nil, "no-error")
	nacq := 0
	lastPresent := false
	for _, e := range vEvents {
		nacq++
		lastPresent = e == "acquire:present"
	}
	vAssert(nacq == 1, "registry-checked-and-updated-in-one-critical-section")
	if lastPresent {
		vAssert(len(vLoaded) == 0 && len(vWaited) == 1 && vWaited[0] == vOther, "present-label-is-waited-for-not-executed")
		if waiter != nil {
			vAssert(vWaiterEdgeAtWait == vOther, "loading-edge-published-before-wait")
		}
		vReach("present")
	} else {
		vAssert(len(vLoaded) == 1 && len(vWaited) == 0, "absent-label-is-executed-once")
		if len(vLoaded) == 1 {
			vAssert(vProj.modules[vLabel] == vLoaded[0], "executed-module-is-the-registered-one")
		}
		vReach("absent")
	}
	if waiter != nil {
		vAssert(waiter.loading == nil, "loading-edge-cleared-on-return")
	}
}

var vEnvFails, vExecFails bool

func vEnvStub(m *module, proj *Project) (*starlark.Thread, starlark.StringDict, error) {
	if vEnvFails {
		return nil, nil, vErrT("unknown project")
	}
	return &starlark.Thread{}, starlark.StringDict{}, nil
}

func vExecFileStub(thread *starlark.Thread, filename string, src any, predeclared starlark.StringDict) (starlark.StringDict, error) {
	if vExecFails {
		return nil, vErrT("exec failed")
	}
	return starlark.StringDict{"x": starlark.None}, nil
}

// VHarnessC06Load (M-LOAD): on every path of module.load — the module's environment cannot be set
// up (unknown project, fetch or config failure), its file fails to execute, or it loads — the module
// is marked loaded with its outcome published and its waiters are woken before load returns:
// otherwise every other module that loads it waits for ever.
func VHarnessC06Load() {
	vMode = "load"
	m := vNewModule("m")
	vTarget = m
	vEnvFails = vNondetBool("env-fails")
	vExecFails = vNondetBool("exec-fails")
	proj := &Project{modules: map[string]*module{}, events: DiscardEvents}
	vData, vErr = nil, nil
	d, err := m.load(proj)
	vAssert((err != nil) == (vEnvFails || vExecFails), "load-returns-the-outcome")
	vAssert(m.loaded, "M-LOAD: load returned without marking the module loaded (its waiters hang)")
	vAssert(len(vEvents) >= 1 && vEvents[len(vEvents)-1] == "broadcast", "M-LOAD: load returned without waking the module's waiters")
	vAssert((m.err != nil) == (err != nil) && len(m.data) == len(d), "M-LOAD: published outcome differs from the returned one")
	vReach("loaded")
}
