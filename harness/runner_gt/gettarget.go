package runner

// O-GETTARGET lives in its own harness directory: it is the only obligation that calls getTarget
// directly, so a change of that function's signature makes only this unit inconclusive.

var (
	vMode   string
	vEvents []string
)

func vLog(e string) { vEvents = append(vEvents, e) }

func vIndex(ev string) int {
	for i, e := range vEvents {
		if e == ev {
			return i
		}
	}
	return -1
}

// ---------------------------------------------------------------- O-GETTARGET (C04)

var vMapKey string
var vMine2, vTheirs *target

func vOnSyncMap(op string, k any) {
	if vMode != "gettarget" {
		return
	}
	vLog("map:" + op)
	// rely: between any two operations of this thread another thread may register the label
	if vNondetBool("other-thread-registers-" + op) {
		if vSyncMapPut(&vRunner.targetMap, vMapKey, vTheirs) {
			vLog("other-registered")
		}
	}
}

func vOnSyncMapOverwrite(k, old, new any) {
	if vMode == "gettarget" {
		vAssert(old == new, "O-GETTARGET: a registered target was replaced by another one")
	}
}

var vRunner *runner

// VHarnessGetTarget: getTarget returns the one registered target for a label even when another
// thread registers the label between any two of its steps (each label has exactly one target).
func VHarnessGetTarget() {
	vMode = "gettarget"
	vMapKey = "a"
	vRunner = &runner{gate: newGate(1)}
	vTheirs = newTarget("a")
	if vNondetBool("already-registered") {
		vSyncMapPut(&vRunner.targetMap, vMapKey, vTheirs)
	}
	got := vRunner.getTarget("a")
	vMode = ""
	cur, ok := vRunner.targetMap.Load("a")
	vAssert(ok && cur.(*target) == got, "O-GETTARGET: returned target is not the registered one")
	if vIndex("other-registered") >= 0 {
		vAssert(got == vTheirs, "O-GETTARGET: a second target was created for a registered label")
	}
	vReach("got")
}

