package dawn

import (
	"sync"

	"go.starlark.net/starlark"
)

var vStubTableFor = map[string]map[string]string{"VHarnessC20": {
	"go.starlark.net/starlark.Call": "vCall20"},
}

var (
	vC          *cache
	vCalls      int
	vCallFails  bool
	vCallValue  starlark.Value
	vWriteHeld  bool
	vAbsentAtCall bool
	vOtherValue starlark.Value = starlark.String("theirs")
)

type vErr20 string

func (e vErr20) Error() string { return string(e) }

// the user callable: counts calls, checks it runs under the write lock with the key absent
func vCall20(thread *starlark.Thread, fn starlark.Value, args starlark.Tuple, kwargs []starlark.Tuple) (starlark.Value, error) {
	vCalls++
	vAssert(vWriteHeld, "callable-runs-under-the-write-lock")
	_, present := vC.entries["k"]
	vAssert(!present, "callable-runs-only-if-key-absent")
	if vCallFails {
		return nil, vErr20("callable failed")
	}
	return vCallValue, nil
}

// guarantee checked at every release: entries are only ever added, never replaced or removed
var vSeenK starlark.Value
var vPresentBefore int

func vCheckMonotone() {
	cur, present := vC.entries["k"]
	if vSeenK != nil {
		vAssert(present && cur == vSeenK, "entries-are-never-replaced-or-removed")
	}
	if present {
		vAssert(cur != nil, "no-nil-entry")
		vSeenK = cur
	}
}

// rely: while we do not hold the lock, other threads may add the key (never remove or overwrite)
func vOnAcquireRW(m *sync.RWMutex, write bool) {
	if write {
		vWriteHeld = true
	}
	if _, present := vC.entries["k"]; !present && vNondetBool("other-thread-stored-key") {
		vC.entries["k"] = vOtherValue
	}
	vCheckMonotone()
}

func vOnReleaseRW(m *sync.RWMutex, write bool) {
	vCheckMonotone()
	if write {
		vWriteHeld = false
	}
}

type vCallable struct{}

func (vCallable) String() string        { return "f" }
func (vCallable) Type() string          { return "f" }
func (vCallable) Freeze()               {}
func (vCallable) Truth() starlark.Bool  { return true }
func (vCallable) Hash() (uint32, error) { return 0, nil }
func (vCallable) Name() string          { return "f" }
func (vCallable) CallInternal(*starlark.Thread, starlark.Tuple, []starlark.Tuple) (starlark.Value, error) {
	return nil, nil
}

// VHarnessC20: once() calls the callable at most once and only when the key is absent under the write
// lock; a success is stored and returned; a failure stores nothing; a present key is returned untouched.
func VHarnessC20() {
	vC = &cache{entries: map[string]starlark.Value{"j": starlark.String("other key")}}
	vCallValue = starlark.String("mine")
	vCallFails = vNondetBool("callable-fails")
	// the cache also holds an arbitrary number (up to 2^31) of entries under other keys
	pad := int(vNondetU32("other-entries"))
	vAssume(pad < 1<<31)
	vMapPad(vC.entries, pad)
	before := len(vC.entries)
	vPresentBefore = 0
	if vNondetBool("present-before") {
		vC.entries["k"] = vOtherValue
		vPresentBefore = 1
	}
	v, err := vC.once(nil, nil, "k", vCallable{})
	stored, present := vC.entries["k"]
	vAssert(vCalls <= 1, "at-most-one-call")
	oj, okj := vC.entries["j"]
	grown := 0
	if present {
		grown = 1
	}
	vAssert(okj && oj == starlark.Value(starlark.String("other key")), "other-keys-untouched")
	// the explicit key j is kept and the entry count is the count before plus at most k itself: no
	// entry under any other key was dropped (a new, smaller map would lose the abstract entries)
	vAssert(len(vC.entries) == before+grown, "no-entry-dropped")
	vAssert(vHeld() == 0, "no-lock-held-on-return")
	if vCalls == 0 {
		vAssert(err == nil && v == vOtherValue && present && stored == vOtherValue, "cached-value-returned-untouched")
		vReach("hit")
	} else if vCallFails {
		vAssert(err != nil && !present, "failure-caches-nothing")
		vReach("failed")
	} else {
		vAssert(err == nil && v == vCallValue && present && stored == vCallValue, "success-stored-and-returned")
		vReach("computed")
	}
}
