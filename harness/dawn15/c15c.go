package dawn

import (
	"bytes"

	"github.com/pgavlin/dawn/pickle"
	"go.starlark.net/starlark"
)

// C15 (host unpickler): a record whose NEWOBJ arguments have any shape decodes to a value or an
// error through the real pickle.Decoder + envUnpickler (run-time panics inside the unpickler are
// turned into errors by Decode; anything else would escape or yield nothing).

type vObj struct {
	name string
	args starlark.Tuple
}

func (*vObj) String() string        { return "obj" }
func (*vObj) Type() string          { return "obj" }
func (*vObj) Freeze()               {}
func (*vObj) Truth() starlark.Bool  { return starlark.True }
func (*vObj) Hash() (uint32, error) { return 1, nil }

func vObjPickler(x starlark.Value) (string, string, starlark.Tuple, error) {
	if o, ok := x.(*vObj); ok {
		return "dawn", o.name, o.args, nil
	}
	return "", "", nil, pickle.ErrCannotPickle
}

func vArg(k int) starlark.Value {
	none := starlark.None
	switch k {
	case 0:
		return none
	case 1:
		return starlark.MakeInt(int(vNondetU8("int")))
	case 2:
		return starlark.String("s")
	case 3:
		return starlark.Tuple{none, none, none, none, none}
	case 4: // a well-formed association list
		return starlark.Tuple{starlark.Tuple{starlark.String("k"), none}, starlark.Tuple{starlark.String("l"), starlark.MakeInt(2)}}
	case 5: // an association list with a non-string key
		return starlark.Tuple{starlark.Tuple{starlark.MakeInt(1), none}}
	case 6: // an association list with a short pair / a non-tuple element
		if vNondetBool("short") {
			return starlark.Tuple{starlark.Tuple{starlark.String("k")}}
		}
		return starlark.Tuple{starlark.String("k")}
	case 7:
		return starlark.NewDict(0)
	case 8:
		return starlark.Tuple{none, none}
	default:
		return starlark.NewList(nil)
	}
}

const vArgKinds = 10

var vNames = []string{"Target", "Builtin", "FunctionCode", "Function", "Other", ""}

// VHarnessC15Unpickler: name x argument count 0..4 x every argument of every kind.
func VHarnessC15Unpickler() {
	name := vNames[vParam("name")]
	n := vParam("nargs")
	args := make(starlark.Tuple, n)
	for i := range args {
		args[i] = vArg(vChoose("arg", vArgKinds))
	}
	var buf bytes.Buffer
	if err := pickle.NewEncoder(&buf, pickle.PicklerFunc(vObjPickler)).Encode(&vObj{name, args}); err != nil {
		vAssert(false, "harness-encode")
		return
	}
	v, err := pickle.NewDecoder(&buf, pickle.UnpicklerFunc(envUnpickler)).Decode()
	vAssert(err != nil || v != nil, "value-or-error")
	if err == nil {
		vReach("ok")
	} else {
		vReach("err")
	}
}

// VHarnessC15RecordShape: a record whose stamp decodes to a value of the wrong shape (anything but
// None or a dict) must surface as an error from the up-to-date check, never as a crash.
func VHarnessC15RecordShape() {
	olds := []starlark.Value{starlark.String("dawn"), starlark.MakeInt(int(vNondetU8("i"))), starlark.True, starlark.Tuple{starlark.None},
		starlark.NewList(nil), starlark.Float(1.5), starlark.Bytes("x"), starlark.NewSet(0)}
	news := []starlark.Value{starlark.NewDict(0), starlark.String("dawn")}
	f := &function{oldEnv: olds[vParam("old")], newEnv: news[vParam("new")]}
	eq, _, _, err := f.diffEnv()
	vAssert(err != nil || !eq, "wrong-shaped-record-is-not-up-to-date")
	if err != nil {
		vReach("error")
	}
}
