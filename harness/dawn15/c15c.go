package dawn

import (
	"bytes"
	"encoding/base64"
	"io"

	"github.com/pgavlin/dawn/label"
	"github.com/pgavlin/dawn/pickle"
	"go.starlark.net/starlark"
)

// C15 (host unpickler): a record whose NEWOBJ arguments have any shape decodes to a value or an
// error through the real pickle.Decoder + envUnpickler (run-time panics inside the unpickler are
// turned into errors by Decode; anything else would escape or yield nothing).

type vObj struct {
	name string
	args starlark.Tuple
}

func (*vObj) String() string        { return "obj" }
func (*vObj) Type() string          { return "obj" }
func (*vObj) Freeze()               {}
func (*vObj) Truth() starlark.Bool  { return starlark.True }
func (*vObj) Hash() (uint32, error) { return 1, nil }

func vObjPickler(x starlark.Value) (string, string, starlark.Tuple, error) {
	if o, ok := x.(*vObj); ok {
		return "dawn", o.name, o.args, nil
	}
	return "", "", nil, pickle.ErrCannotPickle
}

func vArg(k int) starlark.Value {
	none := starlark.None
	switch k {
	case 0:
		return none
	case 1:
		return starlark.MakeInt(int(vNondetU8("int")))
	case 2:
		return starlark.String("s")
	case 3:
		return starlark.Tuple{none, none, none, none, none}
	case 4: // a well-formed association list
		return starlark.Tuple{starlark.Tuple{starlark.String("k"), none}, starlark.Tuple{starlark.String("l"), starlark.MakeInt(2)}}
	case 5: // an association list with a non-string key
		return starlark.Tuple{starlark.Tuple{starlark.MakeInt(1), none}}
	case 6: // an association list with a short pair / a non-tuple element
		if vNondetBool("short") {
			return starlark.Tuple{starlark.Tuple{starlark.String("k")}}
		}
		return starlark.Tuple{starlark.String("k")}
	case 7:
		return starlark.NewDict(0)
	case 8:
		return starlark.Tuple{none, none}
	default:
		return starlark.NewList(nil)
	}
}

const vArgKinds = 10

var vNames = []string{"Target", "Builtin", "FunctionCode", "Function", "Other", ""}

// VHarnessC15Unpickler: name x argument count 0..4 x every argument of every kind.
func VHarnessC15Unpickler() {
	name := vNames[vParam("name")]
	n := vParam("nargs")
	args := make(starlark.Tuple, n)
	for i := range args {
		args[i] = vArg(vChoose("arg", vArgKinds))
	}
	var buf bytes.Buffer
	if err := pickle.NewEncoder(&buf, pickle.PicklerFunc(vObjPickler)).Encode(&vObj{name, args}); err != nil {
		vAssert(false, "harness-encode")
		return
	}
	v, err := pickle.NewDecoder(&buf, pickle.UnpicklerFunc(envUnpickler)).Decode()
	vAssert(err != nil || v != nil, "value-or-error")
	if err == nil {
		vReach("ok")
	} else {
		vReach("err")
	}
}

// VHarnessC15RecordShape: a record whose stamp decodes to a value of the wrong shape (anything but
// None or a dict) must surface as an error from the up-to-date check, never as a crash.
func VHarnessC15RecordShape() {
	olds := []starlark.Value{starlark.String("dawn"), starlark.MakeInt(int(vNondetU8("i"))), starlark.True, starlark.Tuple{starlark.None},
		starlark.NewList(nil), starlark.Float(1.5), starlark.Bytes("x"), starlark.NewSet(0)}
	news := []starlark.Value{starlark.NewDict(0), starlark.String("dawn")}
	f := &function{oldEnv: olds[vParam("old")], newEnv: news[vParam("new")]}
	eq, _, _, err := f.diffEnv()
	vAssert(err != nil || !eq, "wrong-shaped-record-is-not-up-to-date")
	if err != nil {
		vReach("error")
	}
}

// ---------------------------------------------------------------- function.load on a corrupt record

var vStubTableFor = map[string]map[string]string{"VHarnessC15Load": {
	"(*github.com/pgavlin/dawn.Project).loadTargetInfo": "vLoadInfo15",
	"(*github.com/pgavlin/dawn.Project).saveTargetInfo": "vSaveInfo15",
	"encoding/base64.NewDecoder":                        "vB64Dec15",
	"io.CopyN":                                          "vCopyN15",
}}

// vCopyN15: io.CopyN byte by byte, as in the pickle package's C15 units (the size of the buffer the
// real io.Copy allocates for an over-long declared length is what this leaves out)
func vCopyN15(dst io.Writer, src io.Reader, n int64) (int64, error) {
	var written int64
	var buf [1]byte
	for written < n {
		if _, err := src.Read(buf[:]); err != nil {
			return written, err
		}
		dst.Write(buf[:])
		written++
	}
	return written, nil
}

var vZeroOK = []string{"encoding/base64.StdEncoding"}

var vStamp15 string

func vLoadInfo15(p *Project, l *label.Label) (targetInfo, error) {
	return targetInfo{Data: vStamp15}, nil
}
func vSaveInfo15(p *Project, l *label.Label, info targetInfo) error { return nil }
func vB64Dec15(enc *base64.Encoding, r io.Reader) io.Reader         { return r }

// VHarnessC15Load: the real function.load on a record whose stamp is any byte string of length n
// (base64 is the identity here: every byte string is the decoding of some stamp), loaded three times
// in one process by fresh function objects, as Project.Reload does in watch mode and the REPL: every
// load gives the same verdict — the decoded environment or an error — and none panics or yields nil.
func VHarnessC15Load() {
	n := vParam("n")
	b := make([]byte, n)
	for i := range b {
		b[i] = vNondetU8("stamp")
		vAssume(b[i] != 'I') // the decimal-text opcode INT is covered by the pickle package's int-text unit
	}
	vStamp15 = string(b)
	var firstErr error
	for round := 0; round < 3; round++ {
		f := &function{}
		err := f.load()
		vAssert(err != nil || f.oldEnv != nil, "load-yields-value-or-error")
		if round == 0 {
			firstErr = err
		} else {
			vAssert((err == nil) == (firstErr == nil), "same-record-same-verdict-on-every-load")
		}
	}
	if firstErr != nil {
		vReach("corrupt")
	} else {
		vReach("intact")
	}
}
