package diff

import "go.starlark.net/starlark"

// Translator validation: the repository's diff test pairs (and the reversed pairs, and a few more).

func vcI(i int) starlark.Value                      { return starlark.MakeInt(i) }
func vcT(values ...starlark.Value) starlark.Tuple { return starlark.Tuple(values) }
func vcD(pairs ...starlark.Tuple) starlark.Value {
	d := starlark.NewDict(len(pairs))
	for _, p := range pairs {
		d.SetKey(p[0], p[1])
	}
	return d
}

func VConformDiff() {
	type S = starlark.String
	pairs := [][2]starlark.Value{
		{S("abc"), S("abd")}, {S("abcd"), S("abef")}, {S("abcd"), S("efcd")},
		{vcT(vcI(1), vcI(2), vcI(3)), vcT(vcI(1), vcI(3), vcI(4))},
		{vcT(vcT(vcI(1), vcI(2)), vcI(3)), vcT(vcT(vcI(1), vcI(4)), vcI(3))},
		{vcD(vcT(S("foo"), S("bar")), vcT(vcI(42), vcI(24)), vcT(S("baz"), S("qux"))), vcD(vcT(S("foo"), S("baz")), vcT(vcI(42), vcI(24)), vcT(S("qux"), S("baz")))},
		{vcI(42), vcI(24)}, {vcT(vcI(42), vcI(24)), vcI(32)}, {vcT(vcI(42), vcI(24)), S("ab")},
		{S("kitten"), S("sitting")}, {starlark.Bytes("\x00\x01\x02"), starlark.Bytes("\x00\x02")},
		{starlark.NewList([]starlark.Value{vcI(1), S("x"), starlark.None}), starlark.NewList([]starlark.Value{S("x"), starlark.None, vcI(2), vcI(1)})},
		{S(""), S("a")}, {S("same"), S("same")},
	}
	for _, p := range pairs {
		for _, q := range [][2]starlark.Value{{p[0], p[1]}, {p[1], p[0]}} {
			d, err := Diff(q[0], q[1])
			switch {
			case err != nil:
				vNote("diff " + q[0].String() + " " + q[1].String() + " -> error " + err.Error())
			case d == nil:
				vNote("diff " + q[0].String() + " " + q[1].String() + " -> nil")
			default:
				vNote("diff " + q[0].String() + " " + q[1].String() + " -> " + d.String() + " old=" + d.Old().String() + " new=" + d.New().String())
			}
		}
	}
}
