package diff

import "go.starlark.net/starlark"

// C16: the diff of two values is nil exactly when they are equal; otherwise Old()/New() are the two
// values in the order given, and the edits are faithful.

const vAlphabet = 3 // element values 0..2: every equality pattern between two short sequences arises

func vElem(tag string) int {
	b := vNondetU8(tag)
	vAssume(b < vAlphabet)
	return int(b)
}

// vSeq builds a sequence of n symbolic elements of the given kind.
// kind 0: String, 1: Bytes, 2: Tuple of ints, 3: List of ints, 4: Tuple of 1-char strings.
func vSeq(kind, n int, tag string) starlark.Value {
	switch kind {
	case 0, 1:
		b := make([]byte, n)
		for i := range b {
			b[i] = 'a' + byte(vElem(tag))
		}
		if kind == 0 {
			return starlark.String(b)
		}
		return starlark.Bytes(b)
	default:
		elems := make([]starlark.Value, n)
		for i := range elems {
			if kind == 4 {
				elems[i] = starlark.String([]byte{'a' + byte(vElem(tag))})
			} else {
				elems[i] = starlark.MakeInt(vElem(tag))
			}
		}
		if kind == 3 {
			return starlark.NewList(elems)
		}
		return starlark.Tuple(elems)
	}
}

func vElems(s starlark.Sliceable) []starlark.Value {
	out := make([]starlark.Value, s.Len())
	for i := range out {
		out[i] = s.Index(i)
	}
	return out
}

func vEqual(a, b starlark.Value) bool {
	eq, err := starlark.Equal(a, b)
	return err == nil && eq
}

func vSameElems(a, b []starlark.Value) bool {
	if len(a) != len(b) {
		return false
	}
	for i := range a {
		if !vEqual(a[i], b[i]) {
			return false
		}
	}
	return true
}

// vCheckSeqDiff is the oracle for sequence diffs.
func vCheckSeqDiff(a, b starlark.Value, d ValueDiff, tag string) {
	vAssert(vEqual(d.Old(), a), tag+"-old-side-is-first-argument")
	vAssert(vEqual(d.New(), b), tag+"-new-side-is-second-argument")
	sd, ok := d.(*SliceableDiff)
	vAssert(ok, tag+"-sliceable-diff")
	if !ok {
		return
	}
	olds, news := vElems(a.(starlark.Sliceable)), vElems(b.(starlark.Sliceable))
	var ro, rn []starlark.Value
	for _, ev := range sd.Edits() {
		e, ok := ev.(*Edit)
		vAssert(ok, tag+"-edit-type")
		if !ok {
			return
		}
		vAssert(e.Sliceable.Len() > 0, tag+"-edit-not-empty")
		switch e.Kind() {
		case EditKindCommon:
			ro = append(ro, vElems(e.Sliceable)...)
			rn = append(rn, vElems(e.Sliceable)...)
		case EditKindDelete:
			ro = append(ro, vElems(e.Sliceable)...)
		case EditKindAdd:
			rn = append(rn, vElems(e.Sliceable)...)
		case EditKindReplace:
			for i := 0; i < e.Sliceable.Len(); i++ {
				switch r := e.Sliceable.Index(i).(type) {
				case ValueDiff:
					if os, isSeq := r.Old().(starlark.Sliceable); isSeq && indexReturnsSlice(os) {
						// strings are replaced as whole segments
						ro = append(ro, vElems(os)...)
						rn = append(rn, vElems(r.New().(starlark.Sliceable))...)
					} else {
						ro = append(ro, r.Old())
						rn = append(rn, r.New())
					}
				case starlark.NoneType:
					// an element equal on both sides inside a replaced run: the edit carries no
					// value, so the positions must hold equal elements
					ok := len(ro) < len(olds) && len(rn) < len(news) && vEqual(olds[len(ro)], news[len(rn)])
					vAssert(ok, tag+"-none-marks-equal-elements")
					if !ok {
						return
					}
					ro = append(ro, olds[len(ro)])
					rn = append(rn, news[len(rn)])
				default:
					vAssert(false, tag+"-replace-entry-type")
					return
				}
			}
		default:
			vAssert(false, tag+"-edit-kind")
			return
		}
	}
	vAssert(vSameElems(ro, olds), tag+"-edits-reproduce-old")
	vAssert(vSameElems(rn, news), tag+"-edits-reproduce-new")
}

// VHarnessC16Seq: two sequences of the same kind with lengths (m, n), elements symbolic.
func VHarnessC16Seq() {
	kind, m, n := vParam("kind"), vParam("m"), vParam("n")
	a, b := vSeq(kind, m, "a"), vSeq(kind, n, "b")
	vRegion("D3-swapped-sides", m >= n)
	d, err := Diff(a, b)
	vAssert(err == nil, "seq-no-error")
	if err != nil {
		return
	}
	if d == nil {
		vAssert(vEqual(a, b), "seq-nil-implies-equal")
		vReach("equal")
		return
	}
	vAssert(!vEqual(a, b), "seq-nonnil-implies-unequal")
	vReach("diff")
	vCheckSeqDiff(a, b, d, "seq")
}

// VHarnessC16SeqTwin: reachability twin.
func VHarnessC16SeqTwin() {
	a, b := vSeq(2, 2, "a"), vSeq(2, 3, "b")
	if d, err := Diff(a, b); err == nil && d != nil {
		vAssert(false, "twin")
	}
}

// VHarnessC16Map: dict diffs have an edit exactly for each key added, removed or changed.
func VHarnessC16Map() {
	keys := []starlark.Value{starlark.String("k1"), starlark.MakeInt(2), starlark.String("k3")}
	nested := vParam("nested") == 1
	// nested=2: the old side holds ints and the new side the numerically equal floats (1 == 1.0 in
	// Starlark: an unchanged key although the types differ)
	numeric := vParam("nested") == 2
	mk := func(tag string) (*starlark.Dict, [3]int) {
		d := starlark.NewDict(3)
		var vals [3]int
		for i, k := range keys {
			v := vElem(tag) // 0 = absent, 1/2 = value
			if numeric {
				v = vChoose(tag+"-value", 3)
			}
			vals[i] = v
			if v != 0 {
				if numeric && tag == "b" {
					d.SetKey(k, starlark.Float(float64(v)))
				} else if nested {
					d.SetKey(k, starlark.Tuple{starlark.MakeInt(v), starlark.String("x")})
				} else {
					d.SetKey(k, starlark.MakeInt(v))
				}
			}
		}
		return d, vals
	}
	a, va := mk("a")
	b, vb := mk("b")
	vRegion("D3-swapped-sides", nested) // nested values are sequences of equal length
	d, err := Diff(a, b)
	vAssert(err == nil, "map-no-error")
	if va == vb {
		vAssert(d == nil, "map-equal-dicts-have-no-diff")
		vReach("equal")
		return
	}
	vAssert(d != nil, "map-unequal-dicts-have-a-diff")
	if d == nil {
		return
	}
	vAssert(d.Old() == starlark.Value(a) && d.New() == starlark.Value(b), "map-sides-in-order")
	md, ok := d.(*MappingDiff)
	vAssert(ok, "map-mapping-diff")
	if !ok {
		return
	}
	nEdits := 0
	for i, k := range keys {
		ev, has, _ := md.Edits().Get(k)
		want := va[i] != vb[i]
		vAssert(has == want, "map-edit-iff-key-differs")
		vAssert(bool(md.Has(k)) == want, "map-has-iff-key-differs")
		if has && want {
			nEdits++
			e := ev.(*Edit)
			switch {
			case va[i] == 0:
				vAssert(e.Kind() == EditKindAdd, "map-added-key")
				nv, _, _ := b.Get(k)
				vAssert(e.Len() == 1 && vEqual(e.Index(0), nv), "map-added-value")
			case vb[i] == 0:
				vAssert(e.Kind() == EditKindDelete, "map-removed-key")
				ov, _, _ := a.Get(k)
				vAssert(e.Len() == 1 && vEqual(e.Index(0), ov), "map-removed-value")
			default:
				vAssert(e.Kind() == EditKindReplace, "map-changed-key")
				inner, ok := e.Index(0).(ValueDiff)
				vAssert(ok, "map-changed-holds-a-diff")
				if ok {
					ov, _, _ := a.Get(k)
					nv, _, _ := b.Get(k)
					vAssert(vEqual(inner.Old(), ov) && vEqual(inner.New(), nv), "map-changed-sides")
				}
			}
		}
	}
	vAssert(md.Edits().(*starlark.Dict).Len() == nEdits, "map-no-extra-edits")
	vReach("mapdiff")
}

// VHarnessC16Nested: a sequence whose elements are sequences (one level of nesting): the inner
// diffs found inside replace edits are themselves faithful.
func VHarnessC16Nested() {
	m, n := vParam("m"), vParam("n")
	mk := func(k int, tag string) starlark.Tuple {
		t := make(starlark.Tuple, k)
		for i := range t {
			t[i] = starlark.Tuple{starlark.MakeInt(vElem(tag)), starlark.MakeInt(vElem(tag))}
		}
		return t
	}
	a, b := mk(m, "a"), mk(n, "b")
	vRegion("D3-swapped-sides", true) // inner pairs always have equal length
	d, err := Diff(a, b)
	vAssert(err == nil, "nested-no-error")
	if err != nil || d == nil {
		vAssert(d != nil || vEqual(a, b), "nested-nil-implies-equal")
		return
	}
	vAssert(!vEqual(a, b), "nested-nonnil-implies-unequal")
	vCheckSeqDiff(a, b, d, "nested")
	sd, ok := d.(*SliceableDiff)
	if !ok {
		return
	}
	for _, ev := range sd.Edits() {
		e := ev.(*Edit)
		if e.Kind() != EditKindReplace {
			continue
		}
		for i := 0; i < e.Sliceable.Len(); i++ {
			if inner, ok := e.Sliceable.Index(i).(*SliceableDiff); ok {
				vReach("inner-diff")
				vCheckSeqDiff(inner.Old(), inner.New(), inner, "inner")
			}
		}
	}
	vReach("done")
}

// VHarnessC16Literal: values of different kinds give a literal diff with the sides in order.
func VHarnessC16Literal() {
	vals := []starlark.Value{starlark.None, starlark.True, starlark.MakeInt(vElem("i")), starlark.String("s"), starlark.Tuple{starlark.MakeInt(1)}, starlark.NewDict(0), starlark.Float(1.5),
		starlark.MakeInt(1), starlark.Float(1), starlark.Float(2), starlark.MakeInt(2)}
	if vParam("a") >= 7 || vParam("b") >= 7 {
		vals[2] = starlark.MakeInt(1) // against the numeric values 7..10 the int is concrete
	}
	a, b := vals[vParam("a")], vals[vParam("b")]
	vRegion("D3-swapped-sides", vParam("a") >= 3 && vParam("b") >= 3 && vParam("a") < 6 && vParam("b") < 6) // string vs tuple: both sliceable
	d, err := Diff(a, b)
	vAssert(err == nil, "literal-no-error")
	// equality is Starlark's: an int and the numerically equal float are equal
	if vParam("a") == vParam("b") || (vParam("a") >= 7 && vParam("b") >= 7 && vEqual(a, b)) || (vParam("a") == 2 && vParam("b") >= 7 || vParam("b") == 2 && vParam("a") >= 7) && vEqual(a, b) {
		vAssert(d == nil, "literal-equal-has-no-diff")
		vReach("literal-equal")
		return
	}
	vAssert(d != nil, "literal-unequal-has-diff")
	if d != nil {
		vAssert(vEqual(d.Old(), a) && vEqual(d.New(), b), "literal-sides-in-order")
		vReach("literal")
	}
}

// VHarnessC16Restart: the differ gives up a search round when more than routeSize points have been
// recorded, records the partial script and restarts on the remainders. With the production budget
// (2,000,000 points) that needs thousands of differing elements; the restart logic itself does not
// depend on the budget, so the differ is constructed as diffSlice does, with a small budget, and the
// same reconstruction oracle is applied to what compose() returns.
func VHarnessC16Restart() {
	kind, m, n := vParam("kind"), vParam("m"), vParam("n")
	a, b := vSeq(kind, m, "a").(starlark.Sliceable), vSeq(kind, n, "b").(starlark.Sliceable)
	if vEqual(a, b) {
		return
	}
	old, new := a, b
	reverse := false
	if m >= n {
		a, b = b, a
		m, n = n, m
		reverse = true
	}
	d := differ{a: a, b: b, m: m, n: n, reverse: reverse, depth: 10, routeSize: vParam("budget")}
	edits, err := d.compose()
	vAssert(err == nil, "restart-no-error")
	if err != nil {
		return
	}
	if d.ox != 0 || d.oy != 0 {
		vReach("restarted")
	}
	vCheckSeqDiff(old, new, &SliceableDiff{valueDiff: valueDiff{old: old, new: new}, edits: edits}, "restart")
	vReach("composed")
}
